"""C08 - a page's result does not depend on processing history or schedule."""
import configparser
import contextlib
import copy
import io
import logging
import os

import numpy as np

from vlib.core import Unit, PropertyViolation

PROPERTY = "C08"
LEVEL = "exploration"
RULE = ("Stateful: one long-lived PageDecoder (second machine: one PageParser built from a real config with line "
        "cropper, TorchScript stub OCR and decoder) is fed generated sequences of 'decode page i' over a pool of 2-4 "
        "synthetic pages (1-4 lines, sparse logits of varied peakiness, prior transcriptions) with repetitions; "
        "configurations: greedy / beam / beam + HashLM / beam + LSTM LM behind LMWrapper, LM state carried across lines "
        "or not, confident-line threshold in {None, 0.2, 0.6, 0.95, inf}, beam width, LM scale. Oracle after every step: "
        "the transcriptions (and confidences) of the page just processed equal those of a fresh decoder/parser with the "
        "same configuration that has seen only that page; per-line exceptions swallowed by process_page are turned into "
        "failures through a logging handler. Schedule: parse_folder.main run in-process with --process-count 1 vs 3 "
        "and as two complementary resumed runs; outputs byte-identical after timestamp stripping. Non-trivial: a "
        "history in which some page is decoded after >= 2 different predecessors with an LM and carry-over, or with a "
        "threshold that skips some but not all lines.")
ASSUMPTIONS = ["multi-process execution is compared by outcome; the technique does not enumerate interleavings",
               "the fresh-instance result is the definition of 'decoding the page alone'"]

CHARS = list("abcde ")


class ErrorCatcher(logging.Handler):
    def __init__(self):
        super().__init__(level=logging.ERROR)
        self.records = []

    def emit(self, record):
        self.records.append(record.getMessage() + (" | " + str(record.exc_info[1]) if record.exc_info else ""))


@contextlib.contextmanager
def catching_errors():
    lg = logging.getLogger("pero_ocr.document_ocr.page_parser")
    h = ErrorCatcher()
    old_prop = lg.propagate
    lg.addHandler(h)
    lg.propagate = False
    try:
        yield h
    finally:
        lg.removeHandler(h)
        lg.propagate = old_prop


def make_pages(spec):
    from pero_ocr.core.layout import PageLayout, RegionLayout
    from vlib.pages import build_line, region_polygon_around
    pages = []
    chars = CHARS + ["​"]
    for pi, p in enumerate(spec):
        pl = PageLayout(id="page%d" % pi, page_size=(800, 1200))
        lines = []
        for li, l in enumerate(p):
            base = np.asarray([[20.0, 60.0 + 70 * li], [400.0, 62.0 + 70 * li]])
            geom = (base, [20.0, 8.0], np.asarray([[20, 40 + 70 * li], [400, 42 + 70 * li], [400, 70 + 70 * li], [20, 68 + 70 * li]], dtype=np.float64))
            line = build_line("p%d-l%d" % (pi, li), geom, l["text"], chars, l["seed"], confuse=l["confuse"], peak=tuple(l["peak"]))
            line.transcription = l["prior"]
            if l.get("broken") == "no_logits":
                line.logits = None
            elif l.get("broken") == "dense_array":
                line.logits = line.logits.toarray()
            lines.append(line)
        reg = RegionLayout("r0", region_polygon_around([x.polygon for x in lines]))
        reg.lines = lines
        pl.regions = [reg]
        pages.append(pl)
    return pages


def make_decoder(cfg):
    from pero_ocr.decoding.decoders import GreedyDecoder, CTCPrefixLogRawNumpyDecoder, BLANK_SYMBOL
    from pero_ocr.document_ocr.page_parser import PageDecoder
    from vlib.lms import HashLM, make_torch_lm
    letters = CHARS + [BLANK_SYMBOL]
    lm = None
    if cfg["decoder"] == "greedy":
        dec = GreedyDecoder(letters)
    else:
        if cfg["decoder"] == "hashlm":
            lm = HashLM(cfg["lm_seed"], len(CHARS))
        elif cfg["decoder"] == "lstmlm":
            from pero_ocr.decoding.lm_wrapper import LMWrapper
            lm = LMWrapper(make_torch_lm(cfg["lm_seed"], CHARS), CHARS, "cpu")
        dec = CTCPrefixLogRawNumpyDecoder(letters, cfg["k"], lm=lm, lm_scale=cfg["scale"])
    return PageDecoder(dec, line_confidence_threshold=cfg["threshold"], carry_h_over=bool(cfg["carry"] and lm is not None))


def page_result(page):
    return [(l.id, l.transcription, None if l.transcription_confidence is None else round(float(l.transcription_confidence), 9))
            for l in page.lines_iterator()]


def config_strategy():
    from hypothesis import strategies as st
    line = st.fixed_dictionaries(dict(text=st.text("abcde ", min_size=1, max_size=6), seed=st.integers(0, 2 ** 31 - 1),
                                      confuse=st.sampled_from([0.0, 0.5, 0.9]), peak=st.sampled_from([(6.0, 14.0), (0.5, 2.5), (20.0, 25.0)]),
                                      prior=st.one_of(st.none(), st.text("abcde ", min_size=0, max_size=5)),
                                      # lines that cannot be decoded (no logits; logits in a wrong container): process_page
                                      # reports them and goes on - the same way whatever was processed before
                                      broken=st.sampled_from([None, None, None, None, None, "no_logits", "dense_array"])))
    page = st.lists(line, min_size=1, max_size=4)
    return st.fixed_dictionaries(dict(
        pages=st.lists(page, min_size=2, max_size=4),
        decoder=st.sampled_from(["greedy", "beam", "hashlm", "hashlm", "lstmlm"]), k=st.sampled_from([1, 2, 4]),
        scale=st.sampled_from([1.0, 0.5, 2.0]), lm_seed=st.integers(0, 10 ** 6), carry=st.booleans(),
        threshold=st.sampled_from([None, 0.2, 0.6, 0.95, float("inf")]),
        # a 'veteran' decoder: the long-lived instance has already decoded that many lines (of an earlier job) when the
        # history starts, so that instance-wide counters pass 128 during the history
        veteran=st.sampled_from([0, 0, 0, 0, 0, 124, 250])))


def make_decoder_machine(ctx):
    from hypothesis import strategies as st
    from hypothesis.stateful import rule, initialize, precondition
    from vlib.machine import LoggedMachine

    class DecoderMachine(LoggedMachine):
        def setup(self):
            self.cfg = None

        @initialize(cfg=config_strategy())
        def init(self, cfg):
            self.do(("init", cfg))

        @precondition(lambda self: self.cfg is not None)
        @rule(i=st.integers(0, 3))
        def decode(self, i):
            self.do(("decode", i % len(self.cfg["pages"])))

        @precondition(lambda self: self.cfg is not None)
        @rule(thr=st.sampled_from([None, 0.2, 0.6, 0.95, 1.5, float("inf")]))
        def set_threshold(self, thr):
            self.do(("set_threshold", thr))

        def op_set_threshold(self, thr):
            """the confidence threshold is a plain attribute of the live decoder (tools change it between pages): from now on the
            decoder must behave like a fresh one built with that threshold"""
            self.decoder.line_confidence_threshold = thr
            self.cfg = dict(self.cfg, threshold=thr)
            self.fresh = {}
            self.ctx.event("threshold_changed_on_the_live_decoder")

        def op_init(self, cfg):
            self.cfg = cfg
            self.pages = make_pages(cfg["pages"])
            self.decoder = make_decoder(cfg)
            self.fresh = {}
            self.preds = {}
            self.last = None
            self.nontrivial = False
            if cfg.get("veteran"):
                rs = np.random.RandomState(cfg["lm_seed"])
                spec = [[dict(text="".join(rs.choice(list("abcde "), size=rs.randint(1, 5))), seed=int(rs.randint(0, 2 ** 31 - 1)), confuse=0.5,
                              peak=(0.5, 2.5), prior=None, broken=None) for _ in range(cfg["veteran"])]]
                warm = make_pages(spec)[0]
                with catching_errors():
                    self.decoder.process_page(warm)
                self.ctx.event("veteran_decoder")

        def fresh_result(self, i):
            if i not in self.fresh:
                d = make_decoder(self.cfg)
                p = copy.deepcopy(self.pages[i])
                with catching_errors() as h:
                    self.ctx.must("process_page_raises", d.process_page, p)
                self.fresh[i] = (page_result(p), list(h.records), d.lines_decoded, d.lines_examined)
            return self.fresh[i]

        def op_decode(self, i):
            ctx = self.ctx
            want, want_err, n_dec, n_ex = self.fresh_result(i)
            p = copy.deepcopy(self.pages[i])
            with catching_errors() as h:
                ctx.must("process_page_raises", self.decoder.process_page, p)
            got = page_result(p)
            desc = lambda: "history=%r (decode ops: %r)" % (self.log[:1], [op[1] for op in self.log[1:]])
            ctx.check(list(h.records) == want_err, "line_failure_depends_on_history",
                      lambda: "errors now %r, alone %r; " % (h.records, want_err) + desc())
            n_broken = sum(1 for l in self.cfg["pages"][i] if l.get("broken"))
            ctx.check(len(h.records) == n_broken, "line_decoding_failed", lambda: "%d undecodable lines, errors %r; " % (n_broken, h.records) + desc())
            if n_broken:
                ctx.event("page_with_undecodable_line")
            ctx.check(got == want, "page_result_depends_on_history",
                      lambda: "page %d after %r: got %r, alone %r; " % (i, self.last, got, want) + desc())
            if self.last is not None:
                self.preds.setdefault(i, set()).add(self.last)
            self.last = i
            cfg = self.cfg
            lm = cfg["decoder"] in ("hashlm", "lstmlm")
            partial_skip = cfg["threshold"] not in (None, float("inf")) and 0 < n_dec < n_ex
            if len(self.preds.get(i, ())) >= 2 and ((lm and cfg["carry"]) or partial_skip):
                self.nontrivial = True
            if partial_skip:
                ctx.event("threshold_skips_some_lines")
            if lm and cfg["carry"]:
                ctx.event("lm_carry_over")

        def teardown(self):
            if getattr(self, "nontrivial", False):
                self.ctx.nontrivial(repr(self.log))

    DecoderMachine.ctx = ctx
    return DecoderMachine


# ---------------------------------------------------------------- PageParser built from a config
def parser_config_strategy():
    from hypothesis import strategies as st
    line = st.fixed_dictionaries(dict(y=st.integers(0, 3), x0=st.integers(5, 60), length=st.integers(40, 260), dy=st.integers(-3, 3),
                                      prior=st.one_of(st.none(), st.text("abcde", min_size=0, max_size=4))))
    page = st.fixed_dictionaries(dict(seed=st.integers(0, 2 ** 31 - 1), lines=st.lists(line, min_size=1, max_size=3), kind=st.sampled_from(["noise", "smooth"])))
    return st.fixed_dictionaries(dict(
        pages=st.lists(page, min_size=2, max_size=3), decoder=st.sampled_from(["GREEDY", "FAST-LOG-RAW"]), k=st.sampled_from([1, 3]),
        threshold=st.sampled_from([None, 0.3, 0.9]), inject_lm=st.booleans(), lm_seed=st.integers(0, 10 ** 6), carry=st.booleans(),
        scale=st.sampled_from([1.0, 0.5]), filter_thr=st.sampled_from([-1, -1, 0.2])))


def build_parser(cfg):
    from pero_ocr.document_ocr.page_parser import PageParser
    from vlib.stubs import engine_json
    from vlib.lms import HashLM
    import torch
    ocr_json = engine_json(CHARS, 16, 0)
    cp = configparser.ConfigParser()
    cp["PAGE_PARSER"] = {"RUN_LAYOUT_PARSER": "no", "RUN_LINE_CROPPER": "yes", "RUN_OCR": "yes", "RUN_DECODER": "yes",
                         "FILTER_CONFIDENT_LINES_THRESHOLD": str(cfg["filter_thr"])}
    cp["LINE_CROPPER"] = {"INTERP": "2", "LINE_SCALE": "1", "LINE_HEIGHT": "16"}
    cp["OCR"] = {"METHOD": "pytorch_ocr", "OCR_JSON": ocr_json, "USE_CPU": "yes"}
    dec = {"TYPE": cfg["decoder"], "USE_CPU": "yes", "CARRY_H_OVER": "no"}
    if cfg["decoder"] == "FAST-LOG-RAW":
        dec.update({"BEAM_SIZE": str(cfg["k"]), "LM_SCALE": str(cfg["scale"])})
    if cfg["threshold"] is not None:
        dec["CONFIDENCE_THRESHOLD"] = str(cfg["threshold"])
    cp["DECODER"] = dec
    with contextlib.redirect_stdout(io.StringIO()), contextlib.redirect_stderr(io.StringIO()):
        parser = PageParser(cp, device=torch.device("cpu"), config_path="")
    if cfg["decoder"] == "FAST-LOG-RAW" and cfg["inject_lm"]:
        parser.decoder.decoder._lm = HashLM(cfg["lm_seed"], len(CHARS))
        parser.decoder.continue_lines = bool(cfg["carry"])
    return parser


def make_parser_pages(spec):
    from pero_ocr.core.layout import PageLayout, RegionLayout, TextLine
    out = []
    for pi, p in enumerate(spec):
        rs = np.random.RandomState(p["seed"])
        if p["kind"] == "noise":
            img = rs.randint(0, 256, size=(260, 340, 3)).astype(np.uint8)
        else:
            yy, xx = np.mgrid[0:260, 0:340]
            img = np.stack([(xx * 3 + yy * 5 + p["seed"] % 97) % 256, (xx * 7 + yy) % 256, (xx + yy * 2) % 256], axis=2).astype(np.uint8)
        pl = PageLayout(id="pp%d" % pi, page_size=(260, 340))
        reg = RegionLayout("r0", np.asarray([[0, 0], [340, 0], [340, 260], [0, 260]], dtype=np.float64))
        for li, l in enumerate(p["lines"]):
            y = 40.0 + 60 * l["y"] + li
            base = np.asarray([[float(l["x0"]), y], [float(l["x0"] + l["length"]), y + l["dy"]]])
            poly = np.asarray([[base[0, 0], y - 12], [base[1, 0], y - 12], [base[1, 0], y + 4], [base[0, 0], y + 4]])
            reg.lines.append(TextLine(id="pp%d-l%d" % (pi, li), baseline=base, polygon=poly, heights=[12.0, 4.0], transcription=l["prior"]))
        pl.regions = [reg]
        out.append((img, pl))
    return out


def make_parser_machine(ctx):
    from hypothesis import strategies as st
    from hypothesis.stateful import rule, initialize, precondition
    from vlib.machine import LoggedMachine

    class ParserMachine(LoggedMachine):
        def setup(self):
            self.cfg = None

        @initialize(cfg=parser_config_strategy())
        def init(self, cfg):
            self.do(("init", cfg))

        @precondition(lambda self: self.cfg is not None)
        @rule(i=st.integers(0, 2))
        def process(self, i):
            self.do(("process", i % len(self.cfg["pages"])))

        @precondition(lambda self: self.cfg is not None and getattr(self, "last_out", None) is not None and self.cfg["filter_thr"] < 0)
        @rule()
        def again(self):
            self.do(("again",))

        @precondition(lambda self: self.cfg is not None)
        @rule(i=st.integers(0, 2), stage=st.sampled_from(["ocr", "decoder", "decoder", "cropper"]), at=st.integers(1, 3))
        def faulty(self, i, stage, at):
            self.do(("faulty", i % len(self.cfg["pages"]), stage, at))

        def op_faulty(self, i, stage, at):
            """a page during whose processing one stage fails once (the `at`-th network call / decoded line / cropped line raises);
            whatever happens to that page, the pages processed afterwards must come out as if it had never been seen"""
            class FailAt:
                def __init__(self, inner):
                    self.__dict__["inner"], self.__dict__["n"] = inner, 0

                def __call__(self, *a, **kw):
                    self.__dict__["n"] += 1
                    if self.__dict__["n"] == at:
                        raise RuntimeError("CUDA out of memory. (injected fault)")
                    return self.__dict__["inner"](*a, **kw)

                def __getattr__(self, name):
                    return getattr(self.__dict__["inner"], name)
            if stage == "ocr":
                holder, attr = self.parser.ocr.ocr_engine, "model"
            elif stage == "decoder":
                holder, attr = self.parser.decoder, "decoder"
            else:
                holder, attr = self.parser.line_cropper.crop_engine, "fast_remap"
            inner = getattr(holder, attr)
            setattr(holder, attr, FailAt(inner))
            img, pl = self.pages[i]
            try:
                with catching_errors(), contextlib.redirect_stdout(io.StringIO()):
                    self.parser.process_page(img.copy(), copy.deepcopy(pl))
            except Exception:  # noqa: BLE001 - the faulty page itself may fail
                self.ctx.event("faulty_page_raised")
            finally:
                if stage == "cropper":
                    delattr(holder, attr)       # the instance attribute shadowed the method
                else:
                    setattr(holder, attr, inner)
            self.ctx.event("page_with_a_failing_stage:" + stage)
            self.last_out = None
            self.last = ("faulty", i, stage)

        def op_again(self):
            """the layout object that came out of the last step is handed to the parser once more (a second pass over
            an already processed page: its lines now carry transcriptions and confidences)."""
            ctx = self.ctx
            if getattr(self, "last_out", None) is None:
                return
            i, obj = self.last_out
            img = self.pages[i][0]
            want, _ = self.fresh[i]
            try:
                with catching_errors() as h, contextlib.redirect_stdout(io.StringIO()):
                    out = self.parser.process_page(img.copy(), obj)
            except Exception as e:  # noqa
                ctx.fail("parser_process_page_raises", "%s: %s; history=%r" % (type(e).__name__, e, self.log))
            got = page_result(out)
            self.last_out = (i, out)
            ctx.check(got == want, "second_pass_over_processed_page_differs",
                      lambda: "page %d: second pass %r, first pass alone %r; history=%r" % (i, got, want, self.log))
            ctx.event("second_pass_over_processed_page")
            self.last = i

        def op_init(self, cfg):
            self.cfg = cfg
            self.last_out = None
            self.pages = make_parser_pages(cfg["pages"])
            self.parser = build_parser(cfg)
            self.fresh = {}
            self.preds = {}
            self.last = None
            self.nontrivial = False

        def run(self, parser, i):
            img, pl = self.pages[i]
            p = copy.deepcopy(pl)
            with catching_errors() as h, contextlib.redirect_stdout(io.StringIO()):
                out = parser.process_page(img.copy(), p)
            if parser is getattr(self, "parser", None):
                self.last_out = (i, out)
            return page_result(out), list(h.records)

        def op_process(self, i):
            ctx = self.ctx
            if i not in self.fresh:
                self.fresh[i] = self.run(build_parser(self.cfg), i)
            want, want_err = self.fresh[i]
            try:
                got, err = self.run(self.parser, i)
            except PropertyViolation:
                raise
            except Exception as e:  # noqa
                ctx.fail("parser_process_page_raises", "%s: %s; history=%r" % (type(e).__name__, e, self.log))
            desc = lambda: "history=%r (process ops: %r)" % (self.log[:1], [op[1] for op in self.log[1:]])
            ctx.check(not err and not want_err, "line_decoding_failed", lambda: "%r / %r; " % (err, want_err) + desc())
            ctx.check(got == want, "page_result_depends_on_history", lambda: "page %d after %r: got %r, alone %r; " % (i, self.last, got, want) + desc())
            if self.last is not None:
                self.preds.setdefault(i, set()).add(self.last)
            self.last = i
            if len(self.preds.get(i, ())) >= 2 and self.cfg["decoder"] == "FAST-LOG-RAW" and self.cfg["inject_lm"] and self.cfg["carry"]:
                self.nontrivial = True
            if len(self.preds.get(i, ())) >= 2 and self.cfg["threshold"] is not None:
                self.nontrivial = True

        def teardown(self):
            if getattr(self, "nontrivial", False):
                self.ctx.nontrivial(repr(self.log))

    ParserMachine.ctx = ctx
    return ParserMachine


# ---------------------------------------------------------------- schedule: sequential vs multi-process vs resumed runs
def strat_schedule():
    from hypothesis import strategies as st
    return st.fixed_dictionaries(dict(n_pages=st.integers(3, 5), seeds=st.lists(st.integers(1, 10 ** 6), min_size=5, max_size=5),
                                      lines=st.lists(st.integers(1, 3), min_size=5, max_size=5), procs=st.sampled_from([2, 3]),
                                      first_part=st.lists(st.booleans(), min_size=5, max_size=5),
                                      # which outputs of a page the interrupted earlier run left behind (7 = all three);
                                      # xml+render without the crops (3) is the recorded C17 finding and is not generated
                                      present=st.lists(st.sampled_from([7, 7, 0, 1, 2, 4, 5, 6]), min_size=5, max_size=5)))


def run_script(argv):
    import subprocess
    import sys
    script = os.path.join(os.environ.get("VERIF_REPO", "/repo"), "user_scripts", "parse_folder.py")
    p = subprocess.run([sys.executable, script] + argv[1:], stdout=subprocess.PIPE, stderr=subprocess.STDOUT, text=True, timeout=600)
    return p.returncode, p.stdout


def body_schedule(ctx, case):
    import shutil
    from vlib import folder as F
    n = case["n_pages"]
    ids = ["pg%02d" % i for i in range(n)]
    kinds = ("xml", "render", "lines")
    with F.scratch() as d:
        job = F.make_job(d, ids, case["lines"][:n], case["seeds"][:n], with_text=True)
        with open(job["config"], "w") as f:       # model-free stages only
            f.write("[PAGE_PARSER]\nRUN_LAYOUT_PARSER = no\nRUN_LINE_CROPPER = yes\nRUN_OCR = no\nRUN_DECODER = no\n\n"
                    "[LINE_CROPPER]\nINTERP = 2\nLINE_SCALE = 1\nLINE_HEIGHT = 16\n")
        desc = lambda: "case=%r" % (case,)
        seq = F.out_dirs(d, "seq", kinds)
        rc, out = run_script(F.argv_for(job, seq, process_count=1, transcriptions_file=os.path.join(d, "seq.txt")))
        ctx.check(rc == 0 and "ERROR" not in out, "sequential_run_fails", lambda: "rc=%r %s; " % (rc, out[-500:]) + desc())
        seq_txt = open(os.path.join(d, "seq.txt")).read()
        ctx.check(len(seq_txt.splitlines()) == sum(case["lines"][:n]), "transcriptions_file_incomplete", lambda: "%r; " % seq_txt + desc())
        ref = F.snapshot(seq)
        ctx.check(sorted(ref["xml"]) == sorted(i + ".xml" for i in ids), "sequential_run_incomplete", lambda: "%r; " % sorted(ref["xml"]) + desc())
        par = F.out_dirs(d, "par", kinds)
        rc, out = run_script(F.argv_for(job, par, process_count=case["procs"], transcriptions_file=os.path.join(d, "par.txt")))
        ctx.check(rc == 0 and "ERROR" not in out, "parallel_run_fails", lambda: "rc=%r %s; " % (rc, out[-500:]) + desc())
        par_txt = open(os.path.join(d, "par.txt")).read()
        ctx.check(par_txt == seq_txt, "transcriptions_file_of_parallel_run_differs", lambda: "sequential %r parallel %r; " % (seq_txt, par_txt) + desc())
        diff = F.diff_snapshots(ref, F.snapshot(par))
        ctx.check(not diff, "parallel_run_differs_from_sequential", lambda: "%r; " % (diff,) + desc())
        # resumed run: the first part of the pages is already there (copied from a run over those pages only)
        res = F.out_dirs(d, "res", kinds)
        touched = [(i, p) for i, b, p in zip(ids, case["first_part"], case.get("present", [7] * 5)) if b]
        first = [i for i, p in touched if p == 7]
        for k in ("xml", "render"):
            os.makedirs(res[k], exist_ok=True)
        os.makedirs(res["lines"], exist_ok=True)
        for i, p in touched:
            if p & 1:
                shutil.copy(os.path.join(seq["xml"], i + ".xml"), res["xml"])
            if p & 2:
                shutil.copy(os.path.join(seq["render"], i + ".jpg"), res["render"])
            if p & 4:
                for fn in os.listdir(seq["lines"]):
                    if fn.startswith(i + "-"):
                        shutil.copy(os.path.join(seq["lines"], fn), res["lines"])
        if any(p != 7 for _, p in touched):
            ctx.event("resumed_over_partial_outputs")
        rc, out = run_script(F.argv_for(job, res, skip=True, process_count=case["procs"] if len(first) % 2 else 1))
        ctx.check(rc == 0 and "ERROR" not in out, "resumed_run_fails", lambda: "rc=%r %s; " % (rc, out[-500:]) + desc())
        for i in first:
            ctx.check("Processing %s\n" % i not in out, "complete_page_processed_again", lambda: "page %s; " % i + desc())
        diff = F.diff_snapshots(ref, F.snapshot(res))
        ctx.check(not diff, "resumed_run_differs_from_sequential", lambda: "%r; " % (diff,) + desc())
        if 0 < len(touched) < n or any(p != 7 for _, p in touched):
            ctx.nontrivial(repr(case))


# ---------------------------------------------------------------- the transformer recogniser as OCR method
def strat_transformer_pages():
    from hypothesis import strategies as st
    from checks.c20_transformer_cache import model_cfg
    page = st.fixed_dictionaries(dict(seed=st.integers(0, 2 ** 31 - 1), binary=st.just(False)))
    return st.tuples(model_cfg(), st.integers(1, 4), st.sampled_from([32, 64, 96]), st.lists(page, min_size=2, max_size=4),
                     st.lists(st.integers(0, 3), min_size=2, max_size=6))


def body_transformer_pages(ctx, case):
    """one long-lived transformer engine decodes pages one after another (same number of lines and the same widths on every
    page - the usual case for fixed-size batches); every page must come out as from an engine that has seen only it."""
    import copy as _copy
    from checks.c20_transformer_cache import build_model, make_engine, make_batch, transcribe, close
    cfg, n_lines, width, pages, order = case
    net = build_model(cfg, max_seq_len=64)
    pristine = _copy.deepcopy(net)
    eng = make_engine(net, cfg)
    batches = [make_batch(dict(seed=p["seed"], n=n_lines, w=width, binary=False)) for p in pages]
    alone = {}
    last = None
    for step, k in enumerate(order):
        i = k % len(batches)
        if i not in alone:
            alone[i] = transcribe(make_engine(_copy.deepcopy(pristine), cfg), batches[i])
        got = transcribe(eng, batches[i])
        ctx.check(got[0] == alone[i][0], "transformer_page_result_depends_on_history",
                  lambda: "page %d decoded after page %r: %r, alone %r; case=%r" % (i, last, got[0], alone[i][0], case))
        ctx.check(close(got[1], alone[i][1], 1e-4), "transformer_page_scores_depend_on_history",
                  lambda: "page %d decoded after page %r; case=%r" % (i, last, case))
        last = i
    if len({k % len(batches) for k in order}) >= 2 and any(alone[a][0] != alone[b][0] for a in alone for b in alone):
        ctx.nontrivial(("tpages", repr(case)))


# ---------------------------------------------------------------- resumed runs over every partial state of a small batch
_RS = {}


def resume_state_cases(tier):
    import itertools
    # per page: which of (xml, render) an earlier interrupted run left behind
    cases = [tuple(st) for st in itertools.product((0, 1, 2, 3), repeat=3)]
    # 4 = the earlier run was killed while it was writing this page's XML: a truncated file, no rendering yet
    for pos in range(3):
        for others in itertools.product((0, 3), repeat=2):
            stt = list(others)
            stt.insert(pos, 4)
            cases.append(tuple(stt))
    return cases


def body_resume_state(ctx, case):
    import shutil
    import tempfile
    import atexit
    from vlib import folder as F
    kinds = ("xml", "render")
    ids = ["pa", "pb", "pc"]
    if "job" not in _RS:
        root = tempfile.mkdtemp(prefix="verif-c08-")
        atexit.register(shutil.rmtree, root, True)
        job = F.make_job(root, ids, [2, 1, 2], [5, 6, 7], heightless=True)
        with open(job["config"], "w") as f:
            f.write("[PAGE_PARSER]\nRUN_LAYOUT_PARSER = no\nRUN_LINE_CROPPER = yes\nRUN_OCR = no\nRUN_DECODER = no\n\n"
                    "[LINE_CROPPER]\nINTERP = 2\nLINE_SCALE = 1\nLINE_HEIGHT = 16\n")
        ref = F.out_dirs(root, "ref", kinds)
        status, inj = F.run_main(F.argv_for(job, ref))
        ctx.check(status == "ok", "reference_run_fails", lambda: status)
        _RS.update(job=job, ref=ref, snap=F.snapshot(ref), n=0)
    job, ref = _RS["job"], _RS["ref"]
    _RS["n"] += 1
    outs = F.out_dirs(job["root"], "st%d" % _RS["n"], kinds)
    try:
        for k in kinds:
            os.makedirs(outs[k])
        for pid, stt in zip(ids, case):
            if stt == 4:
                data = open(os.path.join(ref["xml"], pid + ".xml"), "rb").read()
                with open(os.path.join(outs["xml"], pid + ".xml"), "wb") as f:
                    f.write(data[:len(data) // 2])
                ctx.event("truncated_output_of_killed_run")
                continue
            if stt & 1:
                shutil.copy(os.path.join(ref["xml"], pid + ".xml"), outs["xml"])
            if stt & 2:
                shutil.copy(os.path.join(ref["render"], pid + ".jpg"), outs["render"])
        status, inj = F.run_main(F.argv_for(job, outs, skip=True))
        desc = lambda: "per-page state (1 = xml present, 2 = render present, 4 = truncated xml only) %r for pages %r" % (case, ids)
        ctx.check(status == "ok", "resumed_run_fails", lambda: "%s; " % status + desc())
        again = [p for p, stt in zip(ids, case) if stt == 3 and p in inj.processed]
        ctx.check(not again, "complete_page_processed_again", lambda: "%r; " % (again,) + desc())
        diff = F.diff_snapshots(_RS["snap"], F.snapshot(outs))
        ctx.check(not diff, "resumed_run_differs_from_uninterrupted_run", lambda: "%r; " % (diff,) + desc())
        if any(stt in (1, 2, 4) for stt in case):
            ctx.nontrivial(("resume_state", case))
    finally:
        shutil.rmtree(os.path.dirname(outs["xml"]), ignore_errors=True)


# ---------------------------------------------------------------- pages delivered in one re-used frame buffer
def strat_buffer_pages():
    from hypothesis import strategies as st
    line = st.fixed_dictionaries(dict(y=st.integers(0, 3), x0=st.integers(5, 60), length=st.integers(40, 260), dy=st.integers(-3, 3), prior=st.none()))
    page = st.fixed_dictionaries(dict(seed=st.integers(0, 2 ** 31 - 1), lines=st.lists(line, min_size=1, max_size=3), kind=st.sampled_from(["noise", "smooth"])))
    return st.fixed_dictionaries(dict(pages=st.lists(page, min_size=2, max_size=4), channels=st.sampled_from(["gray", "bgr", "bgra"]),
                                      order=st.lists(st.integers(0, 3), min_size=2, max_size=6), interp=st.sampled_from([0, 1, 2])))


def body_buffer_pages(ctx, case):
    """One long-lived parser (line cropper only, model-free) gets every page in the same pre-allocated image buffer, as a
    caller does who reads all scans of one size into one array - grayscale, BGR or BGRA: the crops of every page must be
    those a fresh parser cuts from a private copy of that page."""
    from pero_ocr.document_ocr.page_parser import PageParser

    def make():
        cp = configparser.ConfigParser()
        cp["PAGE_PARSER"] = {"RUN_LAYOUT_PARSER": "no", "RUN_LINE_CROPPER": "yes", "RUN_OCR": "no", "RUN_DECODER": "no"}
        cp["LINE_CROPPER"] = {"INTERP": str(case["interp"]), "LINE_SCALE": "1", "LINE_HEIGHT": "16"}
        with contextlib.redirect_stdout(io.StringIO()):
            return PageParser(cp, config_path="")

    def convert(img):
        if case["channels"] == "gray":
            return np.ascontiguousarray(img[:, :, 1])
        if case["channels"] == "bgra":
            return np.ascontiguousarray(np.concatenate([img, 255 - img[:, :, :1]], axis=2))
        return img
    pages = make_parser_pages(case["pages"])
    parser = make()
    buf = None
    seen = []
    for i in case["order"]:
        i %= len(pages)
        img, pl = pages[i]
        im = convert(img)
        if buf is None:
            buf = np.empty_like(im)
        buf[...] = im
        with contextlib.redirect_stdout(io.StringIO()):
            out = ctx.must("parser_process_page_raises", parser.process_page, buf, copy.deepcopy(pl))
            ref = ctx.must("parser_process_page_raises", make().process_page, im.copy(), copy.deepcopy(pl))
        got = [np.array(l.crop, copy=True) for l in out.lines_iterator()]
        want = [l.crop for l in ref.lines_iterator()]
        ok = len(got) == len(want) and all(g.shape == w.shape and np.array_equal(g, w) for g, w in zip(got, want))
        ctx.check(ok, "page_result_depends_on_history",
                  lambda: "page %d after %r in a re-used %s buffer: the crops differ from those of a fresh parser; case=%r" % (i, seen, case["channels"], case))
        seen.append(i)
    ctx.event("channels:" + case["channels"])
    if len(set(case["order"][k] % len(pages) for k in range(len(case["order"])))) >= 2:
        ctx.nontrivial(repr(case))


UNITS = [
    Unit("page_decoder", "machine", machine=make_decoder_machine, quick=320, thorough=4000, steps=10, shards_quick=8, shrink_quick=False),
    Unit("page_parser", "machine", machine=make_parser_machine, quick=64, thorough=800, steps=7, shards_quick=8, shrink_quick=False),
    Unit("transformer_pages", "given", body=body_transformer_pages, strategy=strat_transformer_pages, quick=60, thorough=800, shards_quick=4),
    Unit("resume_states", "enum", body=body_resume_state, cases=resume_state_cases, exhaustive=True, shards_quick=4, shards_thorough=4),
    Unit("buffer_pages", "given", body=body_buffer_pages, strategy=strat_buffer_pages, quick=80, thorough=1200, shards_quick=4),
    Unit("schedule", "given", body=body_schedule, strategy=strat_schedule, quick=8, thorough=64, shards_quick=4, shards_thorough=16, shrink_quick=False),
]
