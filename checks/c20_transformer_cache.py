"""C20 - cached transformer decoding equals recomputation, per line and per batch."""
import contextlib
import copy
import io

import numpy as np

from vlib.core import Unit, PropertyViolation

PROPERTY = "C20"
LEVEL = "exploration"
RULE = ("Random-weight TransformerOCR models (decoder depth 1-3, heads 1-4, width 8-32, ff 16-64, 4-9 classes, small "
        "convolutional front-end, max_seq_len 64, output bias drawn so that lines end at different steps), batches of 1-4 "
        "equal-width images (width 32-160, so the length cap W/4 is reachable), target prefixes up to the cap. Stateful: "
        "one long-lived model receives generated sequences of transcribe(batch) calls with equal and different batch "
        "sizes and widths, interleaved with teacher-forced forward passes. Oracle: (a) per-step scores of cached infer, "
        "uncached infer and the masked forward pass agree within 2e-5*(1+|x|); (b) every line of a batch equals the "
        "line decoded alone on a fresh copy of the model; (c) the batch decoded after any history equals the batch on a "
        "fresh copy; (d) decoding stops within cap+1 steps and no output contains the boundary or ignore symbol. "
        "Non-trivial: batch >= 2 with lines ending at different steps, preceded in the history by a batch of the same "
        "size; distinct by the history.")
ASSUMPTIONS = ["float32 tolerance 2e-5*(1+|x|) on scores (measured agreement ~5e-7)",
               "transcription equality is asserted only when every arg max on the way has a margin > 1e-4 (otherwise scores only)",
               "the stock VGG front-end is replaced by a small strided convolution (it downloads pretrained weights)"]

H = 16


def model_cfg():
    from hypothesis import strategies as st
    return st.fixed_dictionaries(dict(
        seed=st.integers(0, 2 ** 31 - 1), layers=st.integers(1, 3), heads=st.sampled_from([1, 2, 4]),
        width=st.sampled_from([8, 16, 32]), ff=st.sampled_from([16, 64]), classes=st.integers(4, 9),
        gain=st.sampled_from([1.0, 3.0, 8.0]), end_bias=st.sampled_from([-0.5, 0.1, 0.4, 1.0, 2.0]), enc_layers=st.integers(1, 2),
        ignore_bias=st.sampled_from([-4.0, 0.0, 1.5])))


def build_model(cfg, max_seq_len=64):
    import torch
    from pero_ocr.ocr_engine import transformer as T
    torch.manual_seed(cfg["seed"])

    class Front(torch.nn.Module):
        def __init__(self, d):
            super().__init__()
            self.conv = torch.nn.Conv2d(3, d, kernel_size=(H, 4), stride=(H, 4))

        def forward(self, x):
            return torch.tanh(self.conv(x)).squeeze(2)
    d = cfg["width"]
    with contextlib.redirect_stdout(io.StringIO()):
        enc = T.LineSelfAttentionEncoder(0.0, max_seq_len=max_seq_len, dim_model=d, dim_ff=cfg["ff"], nb_heads=cfg["heads"], nb_layers=cfg["enc_layers"])
        net = T.TransformerOCR(Front(d), enc, num_classes=cfg["classes"] + 2, dropout=0.0, nb_layers=cfg["layers"], dim_model=d,
                               dim_ff=cfg["ff"], max_seq_len=max_seq_len, nb_heads=cfg["heads"])
    with torch.no_grad():
        net.dec_out_proj.weight.mul_(cfg["gain"])
        net.dec_embeder.weight.mul_(2.0)
        net.dec_out_proj.bias[cfg["classes"] + 1] += cfg.get("ignore_bias", -4.0)    # models that do / do not emit the ignore symbol
        net.encoder_frontend.conv.weight.mul_(4.0)
        for layer in net.trans_decoder.layers:        # let the image matter: stronger cross-attention
            layer.multihead_attn.out_proj.weight.mul_(5.0)
            layer.multihead_attn.in_proj_weight.mul_(2.0)
    net.eval()
    # calibrate the end-of-line bias on a probe input: at step 1 the boundary symbol scores `end_bias` below the best
    # other symbol there, so that real inputs end at different steps (a pure function of the drawn configuration)
    with torch.no_grad():
        probe = copy.deepcopy(net)
        b = cfg["classes"]
        enc = probe.encode(torch.full((1, 3, H, 64), 0.5))
        emb = probe.dec_embeder(torch.tensor([b])).unsqueeze(0)
        l = probe.dec_out_proj(probe.trans_decoder.infer(probe.pos_encoder(emb), enc, is_cached=False))[0]
        others = torch.cat([l[:b], l[b + 1:]]).max()
        net.dec_out_proj.bias[b] += float(others - l[b]) - cfg["end_bias"]
    return net


def make_engine(net, cfg):
    import torch
    from pero_ocr.ocr_engine.transformer_ocr_engine import TransformerEngineLineOCR
    eng = object.__new__(TransformerEngineLineOCR)
    eng.net = net
    eng.device = torch.device("cpu")
    eng.characters = [chr(0x61 + i) for i in range(cfg["classes"])] + ["​", ""]
    eng.sentence_boundary_ind = cfg["classes"]
    eng.ignore_ind = cfg["classes"] + 1
    return eng


def make_batch(spec):
    rs = np.random.RandomState(spec["seed"])
    x = rs.randint(0, 60, size=(spec["n"], 3, H, spec["w"])).astype(np.float64)
    for n in range(spec["n"]):          # lines differ strongly (level, horizontal gradient), so that they end at different steps
        if spec.get("binary") and n == spec["seed"] % spec["n"]:
            x[n] = rs.randint(0, 2, size=x[n].shape)       # a binarised line stored with values 0 / 1
            continue
        level = rs.choice([0, 50, 110, 170, 195])
        ramp = np.linspace(0, rs.choice([0, 40, -40]), spec["w"])
        x[n] += level + ramp[None, None, :]
    return np.clip(x, 0, 255).astype(np.uint8)


def batch_spec():
    from hypothesis import strategies as st
    # 'square' batches: as many lines as a line has encoder frames (width / 4), e.g. eight lines of 32 px
    square = st.sampled_from([(4, 16), (8, 32), (12, 48), (3, 12), (6, 24), (5, 20)]).flatmap(
        lambda nw: st.fixed_dictionaries(dict(seed=st.integers(0, 2 ** 31 - 1), n=st.just(nw[0]), w=st.just(nw[1]), binary=st.just(False))))
    return st.integers(0, 9).flatmap(lambda k: square if k == 0 else _ordinary_batch_spec())


def _ordinary_batch_spec():
    from hypothesis import strategies as st
    return st.fixed_dictionaries(dict(seed=st.integers(0, 2 ** 31 - 1), n=st.integers(0, 15).flatmap(lambda k: st.sampled_from([6, 9]) if k == 0 else st.integers(1, 4)),
                                      w=st.sampled_from([32, 48, 64, 96, 160, 32, 48, 64, 96, 160, 160, 400]),
                                      binary=st.sampled_from([False, False, True])))


def close(a, b, tol=2e-5):
    a = np.asarray(a, dtype=np.float64)
    b = np.asarray(b, dtype=np.float64)
    return a.shape == b.shape and bool(np.all(np.abs(a - b) <= tol * (1 + np.abs(b))))


def transcribe(eng, inputs, cached=True):
    import torch
    with torch.no_grad(), contextlib.redirect_stdout(io.StringIO()):
        outs, logits = eng.transcribe_batch(inputs.copy(), is_cached=cached)
    return [[int(x) for x in o] for o in outs], logits.cpu().numpy()


def ends_and_margins(logits, boundary):
    """per line: step at which it ends (first arg max == boundary, else number of steps), min arg-max margin up to there."""
    N, S, C = logits.shape
    ends, margins = [], []
    for n in range(N):
        e = S
        mg = np.inf
        for s in range(S):
            row = np.sort(logits[n, s])
            mg = min(mg, row[-1] - row[-2])
            if int(np.argmax(logits[n, s])) == boundary:
                e = s + 1
                break
        ends.append(e)
        margins.append(float(mg))
    return ends, margins


# ---------------------------------------------------------------- (a) per-step scores
def strat_steps():
    from hypothesis import strategies as st
    return st.tuples(model_cfg(), batch_spec(), st.integers(0, 2 ** 31 - 1), st.integers(1, 12))


def body_steps(ctx, case):
    import torch
    cfg, bspec, lseed, L = case
    net = build_model(cfg, max_seq_len=128)
    X = make_batch(bspec)
    cap = bspec["w"] // 4
    L = min(L, cap)
    rs = np.random.RandomState(lseed)
    N = bspec["n"]
    labels = rs.randint(0, cfg["classes"] + 2, size=(N, L))       # any emitted symbol: characters, boundary, ignore
    labels[:, 0] = cfg["classes"]
    labels_t = torch.from_numpy(labels).long()
    desc = lambda: "case=%r" % (case,)
    with torch.no_grad():
        Xt = torch.from_numpy(X).float() / 255.0
        full = ctx.must("forward_raises", net, Xt, labels_t).numpy()            # (L, N, C)
        results = {}
        for name, cached in (("cached", True), ("uncached", False), ("cached_with_attention", True)):
            m = copy.deepcopy(net)
            enc = m.encode(Xt)
            embs = torch.empty((0, N, cfg["width"]))
            rows = []
            for t in range(L):
                embs = torch.cat((embs, m.dec_embeder(labels_t[:, t]).unsqueeze(0)))
                if name.endswith("with_attention"):
                    # the documented return_attention mode hands back (output, attention weights): the output is the same
                    both = ctx.must("infer_raises", m.trans_decoder.infer, m.pos_encoder(embs), enc, cached, True)
                    ctx.check(isinstance(both, tuple) and len(both) == 2, "return_attention_mode_does_not_return_a_pair", desc)
                    out = both[0]
                else:
                    out = ctx.must("infer_raises", m.trans_decoder.infer, m.pos_encoder(embs), enc, cached)
                rows.append(m.dec_out_proj(out).numpy().copy())
            results[name] = np.stack(rows)                                          # (L, N, C)
    for name in ("cached", "uncached", "cached_with_attention"):
        for t in range(L):
            ctx.check(close(results[name][t], full[t]), name + "_step_scores_differ_from_forward_pass",
                      lambda: "step %d: max abs difference %.3g; " % (t + 1, float(np.abs(results[name][t] - full[t]).max())) + desc())
    ctx.check(close(results["cached"], results["uncached"]), "cached_differs_from_uncached", desc)
    ctx.event("prefix_len:%d" % min(L, 12))
    if L >= 3 and N >= 2:
        ctx.nontrivial(repr(case))


# ---------------------------------------------------------------- (b)-(d) histories
def make_machine(ctx):
    from hypothesis import strategies as st
    from hypothesis.stateful import rule, initialize, precondition
    from vlib.machine import LoggedMachine

    class TransformerMachine(LoggedMachine):
        def setup(self):
            self.cfg = None

        @initialize(cfg=model_cfg())
        def init(self, cfg):
            self.do(("init", cfg))

        @precondition(lambda self: self.cfg is not None)
        @rule(b=batch_spec())
        def transcribe_new(self, b):
            self.do(("transcribe", b))

        @precondition(lambda self: self.cfg is not None and len(self.batches) > 0)
        @rule(k=st.integers(0, 5), seed=st.integers(0, 2 ** 31 - 1))
        def transcribe_same_shape(self, k, seed):
            prev = self.batches[k % len(self.batches)]
            self.do(("transcribe", dict(seed=seed, n=prev["n"], w=prev["w"], binary=False)))

        @precondition(lambda self: self.cfg is not None)
        @rule(b=batch_spec(), L=st.integers(1, 6))
        def forward_pass(self, b, L):
            self.do(("forward", b, L))

        @precondition(lambda self: self.cfg is not None)
        @rule(b=batch_spec(), at=st.integers(1, 4))
        def aborted_batch(self, b, at):
            self.do(("aborted", b, at))

        def op_aborted(self, b, at):
            """a batch whose decoding is cut short by a device fault at step `at` (the caches stay as they were at that moment)"""
            count = [0]

            def hook(mod, inp):
                count[0] += 1
                if count[0] == at:
                    raise RuntimeError("CUDA error: device-side assert triggered")
            handle = self.model.dec_out_proj.register_forward_pre_hook(hook)
            try:
                transcribe(self.engine, make_batch(b))
                self.ctx.event("fault_step_not_reached")
            except RuntimeError:
                self.ctx.event("batch_aborted_by_a_fault")
            finally:
                handle.remove()
            self.batches.append(b)

        def op_init(self, cfg):
            self.cfg = cfg
            self.pristine = build_model(cfg, max_seq_len=128)        # lines up to 400 px: cap of 100 steps
            self.model = copy.deepcopy(self.pristine)
            self.engine = make_engine(self.model, cfg)
            self.batches = []
            self.kept = []          # (scores array as returned, snapshot at return time) of earlier batches
            self.nontrivial = False

        def op_forward(self, b, L):
            import torch
            X = torch.from_numpy(make_batch(b)).float() / 255.0
            labels = torch.full((b["n"], min(L, b["w"] // 4)), self.cfg["classes"], dtype=torch.long)
            with torch.no_grad():
                self.ctx.must("forward_raises", self.model, X, labels)

        def op_transcribe(self, b):
            ctx = self.ctx
            cfg = self.cfg
            boundary, ignore = cfg["classes"], cfg["classes"] + 1
            X = make_batch(b)
            cap = b["w"] // 4
            desc = lambda: "history=%r" % (self.log,)
            try:
                outs, logits = transcribe(self.engine, X)
            except PropertyViolation:
                raise
            except Exception as e:  # noqa
                ctx.fail("transcribe_raises", "%s: %s; " % (type(e).__name__, e) + desc())
            # results handed out earlier are not changed by decoding another batch
            for arr, snap in self.kept:
                ctx.check(arr.shape == snap.shape and np.array_equal(arr, snap), "earlier_result_changed_by_later_batch",
                          lambda: "scores returned for an earlier batch were overwritten; " + desc())
            self.kept.append((logits, logits.copy()))
            self.kept = self.kept[-3:]
            # (d) termination and cleanliness
            ctx.check(logits.shape[1] <= cap + 2, "decoding_exceeds_length_cap", lambda: "%d steps for cap %d; " % (logits.shape[1], cap) + desc())
            for o in outs:
                ctx.check(boundary not in o and ignore not in o, "special_symbol_in_transcription", lambda: "%r; " % (o,) + desc())
            ends, margins = ends_and_margins(logits, boundary)
            # (c) history independence: fresh copy, same batch
            fresh_eng = make_engine(copy.deepcopy(self.pristine), cfg)
            f_outs, f_logits = transcribe(fresh_eng, X)
            f_ends, f_margins = ends_and_margins(f_logits, boundary)
            stable = min(margins + f_margins) > 1e-4
            S = min(logits.shape[1], f_logits.shape[1])
            for n in range(b["n"]):
                e = min(ends[n], f_ends[n], S)
                ctx.check(close(logits[n, :e], f_logits[n, :e]), "result_depends_on_history",
                          lambda: "line %d: scores differ from a fresh copy of the model (max %.3g); " % (n, float(np.abs(logits[n, :e] - f_logits[n, :e]).max())) + desc())
            if stable:
                ctx.check(outs == f_outs, "result_depends_on_history", lambda: "transcriptions %r vs fresh %r; " % (outs, f_outs) + desc())
            # (b) per-line independence: each line alone on a fresh copy
            for n in range(b["n"]):
                alone_eng = make_engine(copy.deepcopy(self.pristine), cfg)
                a_outs, a_logits = transcribe(alone_eng, X[n:n + 1])
                a_ends, a_margins = ends_and_margins(a_logits, boundary)
                e = min(ends[n], a_ends[0], a_logits.shape[1], logits.shape[1])
                ctx.check(close(logits[n, :e], a_logits[0, :e]), "line_depends_on_batch_companions",
                          lambda: "line %d: scores differ from the line decoded alone (max %.3g); " % (n, float(np.abs(logits[n, :e] - a_logits[0, :e]).max())) + desc())
                if stable and a_margins[0] > 1e-4:
                    ctx.check(outs[n] == a_outs[0], "line_depends_on_batch_companions", lambda: "line %d: %r vs alone %r; " % (n, outs[n], a_outs[0]) + desc())
            # cached == uncached transcription on a fresh copy
            u_outs, u_logits = transcribe(make_engine(copy.deepcopy(self.pristine), cfg), X, cached=False)
            Su = min(u_logits.shape[1], f_logits.shape[1])
            ctx.check(close(u_logits[:, :Su], f_logits[:, :Su]) or not stable, "uncached_transcription_differs", desc)
            if not stable:
                ctx.event("unstable_argmax(scores only)")
            if any(e > cap for e in ends):
                ctx.event("line_hits_length_cap")
            same_size_before = any(p["n"] == b["n"] for p in self.batches)
            if b["n"] >= 2 and len(set(ends)) >= 2 and same_size_before:
                self.nontrivial = True
            if same_size_before:
                ctx.event("same_batch_size_seen_before")
            self.batches.append(b)

        def teardown(self):
            if getattr(self, "nontrivial", False):
                self.ctx.nontrivial(repr(self.log))

    TransformerMachine.ctx = ctx
    return TransformerMachine


# ---------------------------------------------------------------- run_ocr strings
def strat_run_ocr():
    from hypothesis import strategies as st
    return st.tuples(model_cfg(), st.fixed_dictionaries(dict(seed=st.integers(0, 2 ** 31 - 1), n=st.integers(1, 3), w=st.sampled_from([64, 160]))))


def body_run_ocr(ctx, case):
    cfg, b = case
    eng = make_engine(build_model(cfg, max_seq_len=320), cfg)      # run_ocr pads to 1088 px: 272 frames, cap 272 steps
    X = make_batch(b).transpose(0, 2, 3, 1)          # N, H, W, 3 as process_lines hands it over
    def one_call(X, what):
        with contextlib.redirect_stdout(io.StringIO()):
            res = ctx.must("run_ocr_raises", eng.run_ocr, X.copy())
        decoded, logits = res
        for s in decoded:
            ctx.check("\u200b" not in s and all(ch in eng.characters[:cfg["classes"]] for ch in s), "special_character_in_text",
                      lambda: "%s: %r; case=%r" % (what, s, case))
        ctx.check(len(decoded) == b["n"], "run_ocr_result_count", lambda: "case=%r" % (case,))
        # the scores the engine's own entry point hands on are the per-step scores of the recomputed (uncached) decoding of
        # the same padded input, and the strings are the decoding of their arg max up to the boundary symbol
        Xp = np.transpose(X, (0, 3, 1, 2))
        pad = np.zeros(Xp.shape[:3] + (1088,), dtype=Xp.dtype)
        s0 = (1088 - Xp.shape[3]) // 2
        pad[:, :, :, s0:s0 + Xp.shape[3]] = Xp
        outs_u, logits_u = transcribe(make_engine(eng.net, cfg), pad, cached=False)
        ctx.check(close(logits, logits_u, 1e-4), "run_ocr_scores_differ_from_recomputed_scores",
                  lambda: "%s: shapes %r %r max difference %r; case=%r" % (what, np.shape(logits), logits_u.shape,
                                                                           float(np.abs(np.asarray(logits) - logits_u).max()) if np.shape(logits) == logits_u.shape else None, case))
        want = ["".join(eng.characters[c] for c in o if c not in (eng.sentence_boundary_ind, eng.ignore_ind)) for o in outs_u]
        ctx.check(list(decoded) == want, "run_ocr_text_differs_from_recomputed_decoding", lambda: "%s: %r vs %r; case=%r" % (what, decoded, want, case))
        return decoded
    decoded = one_call(X, "first call")
    # the same engine object is used for batch after batch: a narrower batch of as many lines right after a wider one
    if X.shape[2] >= 48:
        cut = max(16, (X.shape[2] // 3) // 4 * 4)
        one_call(np.ascontiguousarray(X[:, :, :cut]), "narrower batch of the same size after a wider one")
        ctx.event("narrower_batch_after_wider")
    if len(set(decoded)) >= 2:
        ctx.nontrivial(repr(case))


UNITS = [
    Unit("step_scores", "given", body=body_steps, strategy=strat_steps, quick=400, thorough=4000, shards_quick=8),
    Unit("histories", "machine", machine=make_machine, quick=240, thorough=2400, steps=9, shards_quick=8, shrink_quick=False),
    Unit("run_ocr", "given", body=body_run_ocr, strategy=strat_run_ocr, quick=24, thorough=300, shards_quick=4),
]
