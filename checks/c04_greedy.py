"""C04 - greedy transcription is the CTC collapse of the arg-max path."""
import numpy as np

from vlib.core import Unit

PROPERTY = "C04"
LEVEL = "exploration"
RULE = ("Score tensors N<=5 x C<=7 x T<=14 built from a drawn arg-max path per line (grammar forcing leading/"
        "trailing blanks, all-blank lines, 'x x', 'x _ x', non-blank first frame, the last non-blank class, rows "
        "that differ) with a margin >= 1e-3 over noise (unique maxima by construction); reference = five-line "
        "collapse written from the definition; compared with greedy_decode_ctc, GreedyDecoder and, through the real "
        "PytorchEngineLineOCR.run_ocr with a TorchScript table stub, with the collapse of the returned logits. "
        "Non-trivial: a line with a repeat split by a blank, an adjacent repeat or a non-blank first frame, in a "
        "batch of >= 2 differing rows; distinct by the path set.")
ASSUMPTIONS = ["arg-max ties are outside the statement (torch and numpy break them differently): maxima are unique by construction"]

CHARS = list("abcdefgh")
# character tables as models of other scripts carry them: zero-width space / joiners, a space, a combining mark
TABLES = [CHARS, CHARS, ["a", "\u200b", "b", "\u200c", " ", "c", "\u0301", "d"],
          ["\u1780", "\u1781", "\u17d2", "\u200b", "\u1782", " ", "\u200d", "\u0644"],
          # decomposed text: base letters and the combining marks that follow them are separate classes (the pairs have
          # precomposed forms, and \u212b / \u00c5 are canonically equivalent single characters)
          ["e", "\u0301", "a", "\u0308", "\u212b", "o", "\u030a", "n"]]


def table_for(seed):
    return TABLES[seed % len(TABLES)]


def ref_collapse(path, blank, chars):
    out = []
    prev = None
    for s in path:
        if s != prev and s != blank:
            out.append(chars[s])
        prev = s
    return "".join(out)


def strat_paths():
    from hypothesis import strategies as st

    @st.composite
    def case(draw):
        C = draw(st.integers(2, 7))
        if draw(st.integers(0, 19)) == 0:
            C = draw(st.sampled_from([256, 257, 300, 700]))      # character tables of CJK-sized alphabets (decode unit only)
        big = draw(st.integers(0, 9)) == 0          # realistic sizes: hundreds of frames, a full batch
        T = draw(st.integers(100, 400)) if big else draw(st.integers(1, 14))
        N = draw(st.integers(6, 16)) if big else draw(st.integers(1, 5))
        blank = C - 1
        sym = st.integers(0, C - 1)
        paths = []
        for _ in range(N):
            mode = draw(st.sampled_from(["free", "free", "allblank", "pattern", "lastclass", "copy"]))
            if mode == "allblank":
                p = [blank] * T
            elif mode == "copy" and paths:
                p = list(paths[-1])
                if draw(st.booleans()):
                    p[draw(st.integers(0, T - 1))] = draw(sym)
            elif mode == "pattern":
                x = draw(st.integers(0, max(0, C - 2)))
                y = draw(st.integers(0, max(0, C - 2)))
                pat = draw(st.sampled_from([[x, x], [x, blank, x], [x, y, x], [x, x, blank, x], [blank, x, blank], [x, blank, blank, x, x]]))
                p = []
                while len(p) < T:
                    p += pat
                off = draw(st.integers(0, len(pat) - 1))
                p = (p + pat)[off:off + T]
            elif mode == "lastclass":
                p = [draw(st.sampled_from([max(0, C - 2), blank])) for _ in range(T)]
            elif big:
                pr = np.random.RandomState(draw(st.integers(0, 2 ** 31 - 1)))
                p, cur = [], blank
                for _ in range(T):
                    if pr.uniform() < 0.4:
                        cur = int(pr.randint(0, C))
                    p.append(cur)
            else:
                p = [draw(sym) for _ in range(T)]
            paths.append(p)
        margin = draw(st.sampled_from([1e-3, 3e-3, 0.01, 0.05, 1.0, 5.0]))
        seed = draw(st.integers(0, 2 ** 31 - 1))
        return C, paths, margin, seed
    return case()


def build_scores(C, paths, margin, seed):
    rs = np.random.RandomState(seed)      # pure function of the drawn seed
    N, T = len(paths), len(paths[0])
    sc = np.empty((N, C, T), dtype=np.float32)
    for n, p in enumerate(paths):
        top = (rs.uniform(-3, 3, size=T) * rs.choice([1.0, 1.0, 10.0])).astype(np.float32)      # magnitudes up to 30: float32 still separates 1e-3
        noise = rs.uniform(0, 4, size=(C, T)).astype(np.float32)
        sc[n] = top[None, :] - np.float32(margin) - noise
        for t, c in enumerate(p):
            sc[n, c, t] = top[t]
    if seed % 7 == 0 and margin >= 1.0:
        # un-normalised network outputs far from zero (a constant per tensor does not change any arg max): +-1500, +4000
        sc = sc + np.float32(rs.choice([1500.0, -1500.0, 4000.0]))
    # the construction must yield the intended unique arg max (float32)
    am = sc.argmax(axis=1)
    srt = np.sort(sc, axis=1)
    ok = (am == np.asarray(paths)).all() and ((srt[:, -1, :] - srt[:, -2, :]) > 1e-4).all() if C > 1 else True
    return sc, bool(ok)


def classify(ctx, paths, blank, tag):
    nt = False
    for p in paths:
        if p[0] != blank:
            ctx.event("first_frame_nonblank")
            nt = True
        for a, b in zip(p, p[1:]):
            if a == b and a != blank:
                ctx.event("adjacent_repeat")
                nt = True
                break
        for i in range(len(p) - 2):
            if p[i] != blank and p[i + 1] == blank and p[i + 2] == p[i]:
                ctx.event("repeat_split_by_blank")
                nt = True
                break
        if all(s == blank for s in p):
            ctx.event("all_blank_line")
    if nt and len(paths) >= 2 and len({tuple(p) for p in paths}) >= 2:
        ctx.nontrivial((tag, tuple(tuple(p) for p in paths)))


def body_decode(ctx, case):
    import torch
    from pero_ocr.ocr_engine.pytorch_ocr_engine import greedy_decode_ctc
    from pero_ocr.decoding.decoders import GreedyDecoder, BLANK_SYMBOL
    C, paths, margin, seed = case
    blank = C - 1
    sc, ok = build_scores(C, paths, margin, seed)
    if not ok:
        ctx.event("construction_rejected")
        return
    tab = table_for(seed)
    if C > len(tab) + 1:
        tab = [chr(0x4e00 + i) for i in range(C - 1)]
        ctx.event("table_of_more_than_255_classes")
    chars = tab[:C - 1] + ["​"]
    if seed % 3 == 0:
        chars = tab[:C - 1]         # a table of the C-1 real characters only: the blank (last class) never needs an entry
        ctx.event("table_without_blank_entry")
    want = [ref_collapse(p, blank, tab[:C - 1] + ["?"]) for p in paths]
    if tab is not CHARS:
        ctx.event("table_with_zero_width_or_space_characters")
    t_in = torch.from_numpy(sc.copy())
    got = ctx.must("greedy_decode_ctc_raises", greedy_decode_ctc, t_in, chars)
    ctx.check(bool(torch.equal(t_in, torch.from_numpy(sc))), "decoder_modifies_its_input", lambda: "C=%d paths=%r" % (C, paths))
    again = ctx.must("greedy_decode_ctc_raises", greedy_decode_ctc, t_in, chars)
    ctx.check(list(again) == list(got), "second_decoding_differs", lambda: "C=%d paths=%r %r vs %r" % (C, paths, got, again))
    ctx.check(list(got) == want, "batched_greedy_not_collapse_of_argmax",
              lambda: "C=%d paths=%r got %r want %r" % (C, paths, got, want))
    dec = GreedyDecoder(tab[:C - 1] + [BLANK_SYMBOL])
    for n, p in enumerate(paths):
        x = sc[n].T.astype(np.float64)
        lp = x - x.max(axis=1, keepdims=True)
        lp = lp - np.log(np.exp(lp).sum(axis=1, keepdims=True))
        boh = ctx.must("greedy_decoder_raises", dec, lp)
        ctx.check(boh.best_hyp() == want[n], "standalone_greedy_not_collapse_of_argmax",
                  lambda: "C=%d path=%r got %r want %r" % (C, p, boh.best_hyp(), want[n]))
        ctx.check(boh.best_hyp() == got[n], "decoders_disagree", lambda: "path=%r %r vs %r" % (p, boh.best_hyp(), got[n]))
        if n == 0 and C <= 16:
            # the documented symbol_separator option only changes how the symbols are joined
            sep = ctx.must("greedy_decoder_raises", GreedyDecoder(tab[:C - 1] + [BLANK_SYMBOL], symbol_separator="|"), lp).best_hyp()
            want_sep = "|".join(tab[c] for k, c in enumerate(p) if c != blank and (k == 0 or p[k - 1] != c))
            ctx.check(sep == want_sep, "standalone_greedy_not_collapse_of_argmax", lambda: "with symbol_separator: got %r want %r; path=%r" % (sep, want_sep, p))
    classify(ctx, paths, blank, "decode")


_ENG = {}


def get_engine(C, seed=0):
    from vlib.stubs import make_pytorch_engine
    key = (C, seed % len(TABLES))
    if key not in _ENG:
        _ENG[key] = make_pytorch_engine(table_for(seed)[:C - 1], 16)
    return _ENG[key]


def body_engine(ctx, case):
    from vlib.stubs import paint_logits
    C, paths, margin, seed = case
    if C > 8:
        ctx.event("large_table_skipped(decode unit only)")
        return
    blank = C - 1
    eng = get_engine(C, seed)
    rs = np.random.RandomState(seed)
    N, T = len(paths), len(paths[0])
    imgs = []
    for p in paths:
        table = rs.randint(0, 200, size=(T, C)).astype(np.uint8)
        for t, c in enumerate(p):
            table[t, c] = rs.randint(210, 256)
        imgs.append(paint_logits(table, 16))
    batch = np.stack(imgs, axis=0)
    res = ctx.must("run_ocr_raises", eng.run_ocr, batch)
    decoded, logits = res
    chars = eng.characters
    # what a call returned must still be what it was after later calls (callers such as process_lines keep the logits of
    # every batch until the page is finished): the text must remain the collapse of the logits that came with it
    kept = np.array(logits, copy=True)
    ctx.must("run_ocr_raises", eng.run_ocr, batch[:1].copy())
    ctx.must("run_ocr_raises", eng.run_ocr, batch[::-1].copy())
    ctx.check(np.array_equal(np.asarray(logits), kept), "logits_of_an_earlier_batch_changed_by_a_later_batch",
              lambda: "batch decoded %r; its logits (shape %r) were altered by later calls; paths %r" % (decoded, kept.shape, paths))
    ctx.check(logits.shape == (N, T, C), "logit_shape", lambda: "shape %r want %r" % (logits.shape, (N, T, C)))
    for n, p in enumerate(paths):
        am = [int(x) for x in logits[n].argmax(axis=1)]
        want_from_logits = ref_collapse(am, blank, chars)
        ctx.check(decoded[n] == want_from_logits, "engine_text_not_collapse_of_its_logits",
                  lambda: "row %d argmax %r decoded %r want %r" % (n, am, decoded[n], want_from_logits))
        ctx.check(am == list(p), "STUB_MISREAD", lambda: "painted %r read %r" % (p, am))
    classify(ctx, paths, blank, "engine")


def strat_ties():
    from hypothesis import strategies as st
    return st.tuples(st.integers(2, 6), st.integers(1, 4), st.integers(1, 10), st.integers(0, 2 ** 31 - 1), st.sampled_from([2, 3, 5]))


def body_ties(ctx, case):
    """quantised scores with exact ties: the two decoders must still produce the same text for the same network output
    (both are documented to take the first maximal index), and that text is the collapse of that arg-max path."""
    import torch
    from pero_ocr.ocr_engine.pytorch_ocr_engine import greedy_decode_ctc
    from pero_ocr.decoding.decoders import GreedyDecoder, BLANK_SYMBOL
    C, N, T, seed, levels = case
    rs = np.random.RandomState(seed)
    sc = rs.randint(0, levels, size=(N, C, T)).astype(np.float32)      # few levels -> many exact ties, flat frames
    chars = CHARS[:C - 1] + ["​"]
    got = ctx.must("greedy_decode_ctc_raises", greedy_decode_ctc, torch.from_numpy(sc.copy()), chars)
    dec = GreedyDecoder(CHARS[:C - 1] + [BLANK_SYMBOL])
    ties = 0
    for n in range(N):
        x = sc[n].T.astype(np.float64)
        srt = np.sort(x, axis=1)
        ties += int((srt[:, -1] == srt[:, -2]).sum()) if C > 1 else 0
        lp = x - x.max(axis=1, keepdims=True)
        lp = lp - np.log(np.exp(lp).sum(axis=1, keepdims=True))
        alone = ctx.must("greedy_decoder_raises", dec, lp).best_hyp()
        first_max = [int(np.argmax(x[t])) for t in range(T)]
        want = ref_collapse(first_max, C - 1, chars)
        ctx.check(got[n] == alone, "decoders_disagree_on_tied_scores", lambda: "scores=%r batched %r stand-alone %r" % (sc[n].tolist(), got[n], alone))
        ctx.check(alone == want, "standalone_greedy_not_collapse_of_argmax", lambda: "scores=%r got %r want %r" % (sc[n].tolist(), alone, want))
    if ties and N >= 1 and T >= 2:
        ctx.nontrivial(("ties", case))


UNITS = [
    Unit("decode", "given", body=body_decode, strategy=strat_paths, quick=2000, thorough=50000),
    Unit("ties", "given", body=body_ties, strategy=strat_ties, quick=800, thorough=10000),
    Unit("engine", "given", body=body_engine, strategy=strat_paths, quick=600, thorough=10000),
]
