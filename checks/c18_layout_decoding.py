"""C18 - detection maps decode to one line per ridge, in original-image coordinates."""
import contextlib
import io
import math

import numpy as np

from vlib.core import Unit
from vlib import geom

PROPERTY = "C18"
LEVEL = "exploration"
RULE = ("Synthetic five-channel maps (60-200 x 80-300 map pixels) with 1-6 ridges of Gaussian vertical profile (length "
        ">= 6, slope <= 0.1, vertical separation >= 15, optionally two ridges in one band with a horizontal gap), "
        "end-point responses (3x5 blobs at both ends) only on ridges of >= 12 px, "
        "constant ascender/descender values painted in a band around each ridge, optional end-point responses, "
        "down-sampling 1-8. parse(): one line per ridge, end points within 4*ds, every baseline point within 1.5*ds of "
        "the ridge, heights = painted values * ds, outline = baseline offset by the heights. detect() with a stub "
        "network that returns the image sub-sampled by ds (the test image is the up-sampled map) on non-square pages "
        "with rotations 0-3: all returned coordinates, mapped with the check's own rot90 formulas, lie within 1 px (+ "
        "the parse tolerances) of the ground truth, every baseline lies inside a returned region polygon dilated by "
        "2*ds. Non-trivial: >= 2 ridges, ds >= 2 (parse); non-square page and rotation != 0 (detect).")
ASSUMPTIONS = ["order of the returned lists is not compared (ties are broken with the global RNG)",
               "LayoutEngine is created with object.__new__ and its five post-processing parameters (no model file)"]


def strat_map(with_rot=False):
    def make():
        from hypothesis import strategies as st

        @st.composite
        def case(draw):
            H = draw(st.integers(60, 200))
            W = draw(st.integers(80, 300))
            ds = draw(st.sampled_from([1, 2, 3, 4, 8, 5, 6, 7]))
            n = draw(st.integers(1, 6))
            ridges = []
            y = draw(st.integers(10, 20))
            if draw(st.integers(0, 7)) == 0:
                # 'banner' pages: a paragraph of tall level lines 16-24 px apart in which one inner line is wider than its
                # neighbours, has small heights and is fenced by separator responses, so that the paragraph's region
                # surrounds the banner's region on both sides
                W = max(W, 120)
                k = draw(st.integers(3, 5))
                inner = draw(st.integers(1, k - 2))
                xa = draw(st.integers(24, 40))
                xb = W - draw(st.integers(24, 40))
                fences = []
                for i in range(k):
                    if i == inner:
                        # wider than the paragraph on both sides, on one side only, or lying wholly inside it
                        left_out, right_out = draw(st.sampled_from([(True, True), (True, True), (True, False), (False, True), (False, False)]))
                        bx0 = draw(st.integers(6, xa - 12)) if left_out else xa + draw(st.integers(10, 24))
                        bx1 = W - draw(st.integers(6, W - xb - 12)) if right_out else xb - draw(st.integers(10, 24))
                        bx1 = max(bx1, bx0 + 6)
                        ridges.append(dict(x0=bx0, x1=bx1, y=float(y), slope=0.0,
                                           asc=float(draw(st.integers(2, 4))), desc=float(draw(st.integers(1, 2))), amp=1.0,
                                           ends=draw(st.booleans()) and bx1 - bx0 >= 12))
                        fences.append(draw(st.sampled_from(["both", "both", "above", "below"])))
                    else:
                        ridges.append(dict(x0=xa + draw(st.integers(0, 6)), x1=xb - draw(st.integers(0, 6)), y=float(y), slope=0.0,
                                           asc=float(draw(st.integers(8, 12))), desc=float(draw(st.integers(4, 6))), amp=1.0, ends=draw(st.booleans())))
                        fences.append(None)
                    y += draw(st.integers(16, 24))
                c = dict(H=max(H, y + 12), W=W, ds=ds, ridges=ridges, sep_val=draw(st.sampled_from([1.0, 0.6])), fences=fences, banner=True)
                if with_rot:
                    c["rot"] = draw(st.sampled_from([0, 1, 2, 3]))
                    c["trim"] = (draw(st.integers(0, 7)), draw(st.integers(0, 7)))
                return c
            # 'parallel' pages: all ridges share one slope, so they stay >= 15 px apart although their bounding boxes overlap
            common = draw(st.sampled_from([None, None, 0.04, -0.06, 0.08, -0.1, 0.0]))      # 0.0: a paragraph of level lines 16-30 px apart
            # two-column pages: every band holds a line in the left and one in the right column on exactly the same row
            two_col = common is None and W >= 120 and draw(st.integers(0, 4)) == 0
            if common is not None:
                rise = int(abs(common) * W) + 2
                H = H + rise
                if common < 0:
                    y += rise
            for _ in range(n):
                if y > H - 12 - (int(abs(common) * W) + 2 if (common is not None and common > 0) else 0):
                    break
                length = draw(st.integers(6, W - 20)) if common is None or draw(st.booleans()) else draw(st.integers(max(6, W - 60), W - 20))
                x0 = draw(st.integers(6, W - 8 - length))
                if common is not None:
                    slope = common
                    # same line family: y measured at x = 0
                    yy = y
                    ridges.append(dict(x0=x0, x1=x0 + length, y=float(yy) + common * x0, slope=common,
                                       asc=float(draw(st.integers(2, 12))), desc=float(draw(st.integers(1, 6))), amp=1.0,
                                       ends=draw(st.booleans()) and length >= 12))
                    y += draw(st.integers(16, 30))      # parallel ridges: >= 15 px apart everywhere, bounding boxes may overlap
                    continue
                if two_col:
                    half = W // 2
                    l1 = draw(st.integers(12, half - 22))
                    xa = draw(st.integers(6, half - 14 - l1))
                    l2 = draw(st.integers(12, half - 22))
                    xb = half + 8 + draw(st.integers(0, max(0, half - 16 - l2 - 8)))
                    for xx, ll in ((xa, l1), (xb, l2)):
                        ridges.append(dict(x0=xx, x1=xx + ll, y=float(y), slope=0.0, asc=float(draw(st.integers(2, 12))),
                                           desc=float(draw(st.integers(1, 6))), amp=1.0, ends=draw(st.booleans())))
                    y += draw(st.integers(22, 40))
                    continue
                slope = draw(st.sampled_from([0.0, 0.0, 0.03, -0.05, 0.1, -0.1]))
                # keep the sloped ridge inside its band
                if abs(slope) * length > 6:
                    slope = math.copysign(6.0 / length, slope)
                r = dict(x0=x0, x1=x0 + length, y=float(y) + draw(st.sampled_from([0.0, 0.3, 0.5])), slope=slope,
                         asc=(float(draw(st.integers(2, 12))) + draw(st.sampled_from([0.0, 0.25]))
                              if draw(st.integers(0, 5)) else draw(st.sampled_from([0.0, 0.5, 25.0, 40.0]))),
                         desc=float(draw(st.integers(1, 6))) if draw(st.integers(0, 5)) else draw(st.sampled_from([0.0, 0.5, 15.0])),
                         amp=draw(st.sampled_from([1.0, 0.8])), ends=draw(st.booleans()) and length >= 12)
                ridges.append(r)
                # optionally a second ridge in the same band, well separated horizontally
                if r["x1"] + 14 + 6 < W - 8 and draw(st.integers(0, 3)) == 0:
                    xs = r["x1"] + draw(st.integers(14, 20))
                    if xs + 6 < W - 8:
                        l2 = draw(st.integers(6, W - 8 - xs))
                        ridges.append(dict(x0=xs, x1=xs + l2, y=float(y), slope=0.0, asc=float(draw(st.integers(2, 12))),
                                           desc=float(draw(st.integers(1, 6))), amp=1.0, ends=draw(st.booleans()) and l2 >= 12))
                y += draw(st.integers(22, 40))
            c = dict(H=H, W=W, ds=ds, ridges=ridges)
            # region-separator responses (channel 4): a line may be 'fenced' - separator strokes along its ascender and/or
            # descender line over the whole page width -, which cuts it out of the paragraph formed by its neighbours
            if draw(st.integers(0, 2)) == 0:
                c["sep_val"] = draw(st.sampled_from([1.0, 0.6]))
                c["fences"] = [draw(st.sampled_from([None, None, "both", "both", "above", "below"])) for _ in ridges]
            if with_rot:
                c["rot"] = draw(st.sampled_from([0, 1, 2, 3]))
                c["trim"] = (draw(st.integers(0, 7)), draw(st.integers(0, 7)))      # page sides need not be multiples of ds
            return c
        return case()
    return make


def paint(case):
    H, W = case["H"], case["W"]
    m = np.zeros((H, W, 5), dtype=np.float32)
    for r in case["ridges"]:
        for x in range(r["x0"], r["x1"]):
            yc = r["y"] + r["slope"] * (x - r["x0"])
            for y in range(int(yc) - 6, int(yc) + 8):
                if 0 <= y < H:
                    m[y, x, 2] = max(m[y, x, 2], r["amp"] * math.exp(-0.5 * ((y - yc) / 1.0) ** 2))
                    m[y, x, 0] = r["asc"]
                    m[y, x, 1] = r["desc"]
        if r["ends"]:
            for xe in (r["x0"], r["x1"] - 1):
                ye = r["y"] + r["slope"] * (xe - r["x0"])
                for y in range(int(ye) - 2, int(ye) + 3):
                    for x in range(xe - 1, xe + 2):
                        if 0 <= y < H and 0 <= x < W:
                            m[y, x, 3] = 0.9
    for r, fence in zip(case["ridges"], case.get("fences") or []):
        if fence is None:
            continue
        for x in range(W):
            yc = r["y"] + r["slope"] * (x - r["x0"])
            for row in ([yc - r["asc"]] if fence in ("both", "above") else []) + ([yc + r["desc"]] if fence in ("both", "below") else []):
                row = int(round(row))
                if 0 <= row < H:
                    m[row, x, 4] = case["sep_val"]
    return m


def make_engine(case=None):
    from pero_ocr.layout_engines.cnn_layout_engine import LayoutEngine
    eng = object.__new__(LayoutEngine)
    eng.line_end_weight = 1.0
    eng.vertical_line_connection_range = 5
    eng.smooth_line_predictions = True
    if case is not None:
        # documented post-processing options away from their defaults (a function of the case): smoothing off, other
        # vertical connection ranges; the Gaussian ridges of the generator are decoded alike under all of them
        v = (case["H"] + 3 * case["W"] + len(case["ridges"])) % 6
        eng.smooth_line_predictions = v not in (1, 4)
        eng.vertical_line_connection_range = (5, 5, 3, 7, 4, 5)[v]
    eng.line_detection_threshold = 0.2
    eng.adaptive_downsample = False
    eng.paragraph_line_threshold = 0.3
    return eng


def ridge_polyline(r, ds):
    return [(r["x0"] * ds, r["y"] * ds), ((r["x1"] - 1) * ds, (r["y"] + r["slope"] * (r["x1"] - 1 - r["x0"])) * ds)]


def match_lines(ctx, case, b_list, h_list, t_list, desc, extra_tol=0.0, transform=None):
    """every ridge is matched by exactly one returned line; returns nothing, raises on mismatch."""
    ds = case["ds"]
    ridges = case["ridges"]
    ctx.check(len(b_list) == len(ridges), "line_count_differs_from_ridge_count",
              lambda: "%d lines for %d ridges; lines=%r; " % (len(b_list), len(ridges), [np.asarray(b).tolist() for b in b_list]) + desc())
    used = set()
    for r in ridges:
        gt = ridge_polyline(r, ds)
        if transform:
            gt = [transform(p) for p in gt]
        best = None
        for i, b in enumerate(b_list):
            if i in used:
                continue
            mid = np.asarray(b, dtype=np.float64).mean(axis=0)
            d = geom.polyline_dist((float(mid[0]), float(mid[1])), gt)
            if best is None or d < best[0]:
                best = (d, i)
        ctx.check(best is not None, "ridge_without_line", desc)
        i = best[1]
        used.add(i)
        b = np.asarray(b_list[i], dtype=np.float64)
        pts = [(float(x), float(y)) for x, y in b]
        tol_pt = 1.5 * ds + extra_tol
        for p in pts[1:-1] if len(pts) > 2 else []:
            d = geom.polyline_dist(p, gt)
            ctx.check(d <= tol_pt, "baseline_point_off_ridge", lambda: "ridge %r line %r point %r is %.2f away (tol %.2f); " % (r, pts, p, d, tol_pt) + desc())
        # ends (first/last carry the +-2 px end compensation along the line)
        e0 = min(math.hypot(pts[0][0] - gt[0][0], pts[0][1] - gt[0][1]), math.hypot(pts[-1][0] - gt[0][0], pts[-1][1] - gt[0][1]))
        e1 = min(math.hypot(pts[0][0] - gt[1][0], pts[0][1] - gt[1][1]), math.hypot(pts[-1][0] - gt[1][0], pts[-1][1] - gt[1][1]))
        tol_end = 4 * ds + extra_tol + 1.5 * ds * 0.5
        ctx.check(e0 <= tol_end and e1 <= tol_end, "line_end_points_off_ridge_ends",
                  lambda: "ridge %r (ground truth %r) line %r: end distances %.2f / %.2f (tol %.2f); " % (r, gt, pts, e0, e1, tol_end) + desc())
        # the end points sit on the ridge line too (the end compensation moves them along the line only)
        (ax, ay), (bx, by) = gt[0], gt[1]
        ln = math.hypot(bx - ax, by - ay)
        if ln > 0:
            for p in (pts[0], pts[-1]):
                perp = abs((bx - ax) * (p[1] - ay) - (by - ay) * (p[0] - ax)) / ln
                ctx.check(perp <= tol_pt + 0.3 * ds, "line_end_point_off_the_ridge_line",
                          lambda: "ridge %r line %r: end point %r is %.2f from the ridge line (tol %.2f); " % (r, pts, p, perp, tol_pt + 0.3 * ds) + desc())
        h = [float(x) for x in h_list[i]]
        ctx.check(abs(h[0] - r["asc"] * ds) <= 1e-4 * (1 + r["asc"] * ds) and abs(h[1] - r["desc"] * ds) <= 1e-4 * (1 + r["desc"] * ds),
                  "heights_not_map_values_times_downsampling", lambda: "ridge %r heights %r ds %d; " % (r, h, ds) + desc())
        # outline: every vertex lies asc (upper half) or desc (lower half) away from the baseline
        t = np.asarray(t_list[i], dtype=np.float64)
        ctx.check(t.shape == (2 * len(pts), 2), "outline_shape", lambda: "%r; " % (t.shape,) + desc())
        n = len(pts)
        for k, v in enumerate(t):
            d = geom.polyline_dist((float(v[0]), float(v[1])), pts)
            want = max(1.0, h[0]) if k < n else max(1.0, h[1])
            ctx.check(abs(d - want) <= 0.03 * want + 0.05 * ds + 1e-3, "outline_not_baseline_offset_by_heights",
                      lambda: "line %r outline vertex %d %r is %.3f from the baseline, expected %.3f; " % (pts, k, v.tolist(), d, want) + desc())


def body_parse(ctx, case):
    eng = make_engine(case)
    ctx.event("smoothing:%s connection_range:%d" % (eng.smooth_line_predictions, eng.vertical_line_connection_range))
    m = paint(case)
    desc = lambda: "case=%r" % (case,)
    with contextlib.redirect_stdout(io.StringIO()):
        res = ctx.must("parse_raises", eng.parse, m.copy(), case["ds"])
    b_list, h_list, t_list = res
    # what was decoded for this page stays what it is while the same engine decodes the next page
    snap = [np.array(a, dtype=np.float64, copy=True) for a in list(b_list) + list(t_list)] + [np.array(h_list, dtype=np.float64)]
    with contextlib.redirect_stdout(io.StringIO()):
        ctx.must("parse_raises", eng.parse, np.ascontiguousarray(m[:, ::-1]).copy(), case["ds"])
    now = [np.asarray(a, dtype=np.float64) for a in list(b_list) + list(t_list)] + [np.asarray(h_list, dtype=np.float64)]
    ctx.check(all(x.shape == y.shape and np.array_equal(x, y) for x, y in zip(now, snap)), "lines_of_an_earlier_page_changed_by_a_later_page", desc)
    match_lines(ctx, case, b_list, h_list, t_list, desc)
    for b in b_list:
        xs = np.asarray(b)[:, 0]
        ctx.check(np.all(np.diff(xs) > 0), "baseline_not_left_to_right", lambda: "%r; " % (np.asarray(b).tolist(),) + desc())
    if any(r["ends"] for r in case["ridges"]):
        ctx.event("with_end_point_responses")
    if any(r["slope"] for r in case["ridges"]):
        ctx.event("sloped_ridge")
    if len(case["ridges"]) >= 2 and case["ds"] >= 2:
        ctx.nontrivial(repr(case))


class StubParseNet:
    def __init__(self, ds):
        self.ds = ds

    def get_maps_with_optimal_resolution(self, img):
        return np.ascontiguousarray(img[::self.ds, ::self.ds]).astype(np.float32), self.ds


def body_detect(ctx, case):
    eng = make_engine(case)
    ds, rot = case["ds"], case["rot"]
    eng.parsenet = StubParseNet(ds)
    m = paint(case)
    img_rot = np.repeat(np.repeat(m, ds, axis=0), ds, axis=1)     # what detect() sees after its own rotation
    ty, tx = case.get("trim", (0, 0))
    ty, tx = min(ty, ds - 1), min(tx, ds - 1)
    if ty or tx:
        img_rot = img_rot[:img_rot.shape[0] - ty, :img_rot.shape[1] - tx]
    orig = np.ascontiguousarray(np.rot90(img_rot, k=-rot))        # the page handed to detect()
    Ho, Wo = orig.shape[:2]
    desc = lambda: "case=%r" % (case,)

    def to_orig(p):
        """map a point (x, y) of the rotated frame to the original frame, from the definition of np.rot90."""
        x, y = p
        if rot == 0:
            return (x, y)
        if rot == 1:
            return (Wo - 1 - y, x)
        if rot == 2:
            return (Wo - 1 - x, Ho - 1 - y)
        return (y, Ho - 1 - x)
    # the library breaks ties in its left-to-right / top-to-bottom orders with the process-global RNGs, and the partition of
    # overlapping regions follows that order: both analyses of the metamorphic comparison below start from the same RNG state
    import random as _random
    rng_seed = (case["H"] * 1000003 + case["W"] * 101 + len(case["ridges"])) % (2 ** 31)
    np.random.seed(rng_seed)
    _random.seed(rng_seed)
    with contextlib.redirect_stdout(io.StringIO()):
        res = ctx.must("detect_raises", eng.detect, orig, rot)
    p_list, b_list, h_list, t_list = res
    ctx.event("rot:%d" % rot)
    match_lines(ctx, case, b_list, h_list, t_list, desc, extra_tol=1.0, transform=to_orig)
    # every coordinate refers to the original image
    for arr in list(b_list) + list(t_list) + list(p_list):
        a = np.asarray(arr, dtype=np.float64)
        pad = (max([14.0] + [max(r["asc"], r["desc"]) + 2 for r in case["ridges"]])) * ds + 40
        ctx.check(np.all(a[:, 0] >= -pad) and np.all(a[:, 0] <= Wo + pad) and np.all(a[:, 1] >= -pad) and np.all(a[:, 1] <= Ho + pad),
                  "coordinates_outside_original_image", lambda: "%r for page %dx%d; " % (a.tolist(), Wo, Ho) + desc())
    ctx.check(len(p_list) >= 1 or not b_list, "no_region_polygons", desc)
    # region polygons are built from the outline points (alpha shape, simplified with a 5 px tolerance): in the right frame
    # every region vertex is within a few pixels of some returned outline (those were just validated against ground truth)
    outlines = [[(float(x), float(y)) for x, y in np.asarray(t)] for t in t_list]
    for poly in p_list:
        for v in np.asarray(poly, dtype=np.float64):
            v = (float(v[0]), float(v[1]))
            d = min(0.0 if geom.point_in_polygon(v, o) else geom.boundary_dist(v, o) for o in outlines)
            ctx.check(d <= 8.0, "region_polygon_not_in_original_frame",
                      lambda: "region vertex %r is %.1f px from the nearest text line outline; regions %r; " % (v, d, [np.asarray(q).tolist() for q in p_list]) + desc())
    # metamorphic: analysing the page in a rotated orientation == analysing the rotated page upright and mapping the result
    # back with the definition of np.rot90 (same maps, so the only difference is the library's own back-mapping): within 1 px
    if rot != 0:
        np.random.seed(rng_seed)
        _random.seed(rng_seed)
        with contextlib.redirect_stdout(io.StringIO()):
            up = ctx.must("detect_raises", eng.detect, np.ascontiguousarray(np.rot90(orig, k=rot)), 0)
        for name, got_list, up_list in (("baseline", b_list, up[1]), ("outline", t_list, up[3]), ("region", p_list, up[0])):
            ctx.check(len(got_list) == len(up_list), "rotated_analysis_differs_in_count", lambda: "%s: %d vs %d; " % (name, len(got_list), len(up_list)) + desc())
            mapped = [np.asarray([to_orig((float(x), float(y))) for x, y in np.asarray(a)]) for a in up_list]
            for g in got_list:
                g = np.asarray(g, dtype=np.float64)
                cands = [mm for mm in mapped if mm.shape == g.shape]
                if name == "region":
                    # a region outline is a closed ring: the vertex it starts at (and its direction) follows the order in
                    # which the lines were met, which the library settles with the global RNG on ties - compare as rings
                    err = min([_ring_err(mm, g) for mm in cands] + [float("inf")])
                else:
                    err = min([float(np.abs(mm - g).max()) for mm in cands] + [float("inf")])
                ctx.check(err <= 1.0 + 1e-3, "rotated_coordinates_off_by_more_than_one_pixel",
                          lambda: "%s %r: nearest upright result mapped back differs by %.2f px; page %dx%d ds %d rot %d; " % (name, g.tolist()[:3], err, Wo, Ho, ds, rot) + desc())
        ctx.event("rotation_metamorphic_checked")
    # the engine object and the page buffer are re-used for the next page (a loader that reads every page into the same
    # array): the second page - here the first one upside down - must be decoded from its own content
    flipped = np.ascontiguousarray(orig[::-1])
    orig[...] = flipped
    np.random.seed(rng_seed)
    _random.seed(rng_seed)
    with contextlib.redirect_stdout(io.StringIO()):
        second = ctx.must("detect_raises", eng.detect, orig, rot)
    fresh = make_engine(case)
    fresh.parsenet = StubParseNet(ds)
    np.random.seed(rng_seed)
    _random.seed(rng_seed)
    with contextlib.redirect_stdout(io.StringIO()):
        want2 = ctx.must("detect_raises", fresh.detect, flipped.copy(), rot)
    key = lambda lst: sorted(np.asarray(a, dtype=np.float64).round(3).tolist() for a in lst)
    ctx.check(key(second[1]) == key(want2[1]) and key(second[3]) == key(want2[3]), "page_in_a_reused_buffer_decoded_as_the_previous_page",
              lambda: "baselines %r, a fresh engine gives %r; " % (key(second[1])[:3], key(want2[1])[:3]) + desc())
    if case.get("fences") and any(case["fences"]):
        ctx.event("with_region_separator_responses")
        if len(p_list) >= 2:
            ctx.event("separators_split_the_page_into_several_regions")
    if Ho != Wo and rot != 0 and len(case["ridges"]) >= 1:
        ctx.nontrivial(repr(case))


def _ring_err(a, b):
    """largest coordinate difference between two closed rings of equal vertex count, minimised over start vertex and direction."""
    a = np.asarray(a, dtype=np.float64)
    b = np.asarray(b, dtype=np.float64)
    if len(a) > 1 and np.allclose(a[0], a[-1]) and np.allclose(b[0], b[-1]):
        a, b = a[:-1], b[:-1]
    best = float("inf")
    for bb in (b, b[::-1]):
        for k in range(len(bb)):
            best = min(best, float(np.abs(a - np.roll(bb, k, axis=0)).max()))
    return best


def strat_many():
    from hypothesis import strategies as st
    return st.tuples(st.integers(40, 64), st.integers(5, 7), st.sampled_from([1, 2]), st.integers(0, 2 ** 31 - 1))


def body_many(ctx, spec):
    """dense pages: several hundred short ridges (more components than fit into one byte)."""
    bands, per_band, ds, seed = spec
    rs = np.random.RandomState(seed)
    W = per_band * 60 + 20
    H = bands * 16 + 24
    ridges = []
    for b in range(bands):
        y = 12 + 16 * b
        for k in range(per_band):
            x0 = 8 + 60 * k + int(rs.randint(0, 6))
            ridges.append(dict(x0=x0, x1=x0 + 30 + int(rs.randint(0, 12)), y=float(y), slope=0.0, asc=float(2 + (b + k) % 5), desc=float(1 + k % 3),
                               amp=1.0, ends=False))
    case = dict(H=H, W=W, ds=ds, ridges=ridges)
    eng = make_engine()
    m = paint(case)
    desc = lambda: "bands=%d per_band=%d ds=%d seed=%d (%d ridges)" % (bands, per_band, ds, seed, len(ridges))
    with contextlib.redirect_stdout(io.StringIO()):
        res = ctx.must("parse_raises", eng.parse, m.copy(), ds)
    match_lines(ctx, case, res[0], res[1], res[2], desc)
    if len(ridges) > 255:
        ctx.nontrivial(("many", spec))


# ---------------------------------------------------------------- the provider of (maps, down-sampling factor)
def strat_provider():
    from hypothesis import strategies as st
    page = st.tuples(st.integers(200, 2400), st.integers(200, 2400), st.integers(4, 300))      # height, width, text height in page px
    return st.fixed_dictionaries(dict(pages=st.lists(page, min_size=1, max_size=3), max_mp=st.sampled_from([0.05, 0.2, 1.0, 5.0]),
                                      downsample=st.sampled_from([1, 2, 4, 8]), adaptive=st.sampled_from([True, True, False])))


def body_provider(ctx, case):
    """TorchParseNet.get_maps_with_optimal_resolution with the real resizing / padding code and a stub network whose
    height channel shows the text at the scale it was given: the factor handed on must be the factor of the returned maps."""
    import torch
    from pero_ocr.layout_engines.torch_parsenet import TorchParseNet

    class Probe(TorchParseNet):
        def get_maps(self, img, downsample):
            self.cur = float(downsample)
            with contextlib.redirect_stdout(io.StringIO()):
                m = TorchParseNet.get_maps(self, img, downsample)
            self.produced.append((float(downsample), m))
            return m
    net = object.__new__(Probe)
    net.max_megapixels = case["max_mp"]
    net.device = torch.device("cpu")
    net.detection_threshold = 0.2
    net.adaptive_downsample = case["adaptive"]
    net.init_downsample = net.last_downsample = case["downsample"]
    net.downsample_line_pixel_adapt_threshold = 100
    net.min_line_processing_height, net.max_line_processing_height, net.optimal_line_processing_height = 9, 15, 12
    net.min_downsample, net.max_downsample = 1, 8
    state = {}

    def stub(x):
        h, w = int(x.shape[2]), int(x.shape[3])
        out = torch.zeros((1, 5, h, w))
        out[0, 2, h // 4:h // 2, :] = 1.0                       # text everywhere in a band
        out[0, 0] = state["text_px"] / net.cur              # ascender height in map pixels at this scale
        out[0, 1] = 0.3 * state["text_px"] / net.cur
        return out, None
    net.net = stub
    desc = lambda: "case=%r" % (case,)
    for h, w, text_px in case["pages"]:
        state["text_px"] = float(text_px)
        net.produced = []
        img = np.zeros((h, w, 3), dtype=np.uint8)
        maps, ds = ctx.must("map_provider_raises", net.get_maps_with_optimal_resolution, img)
        ctx.check(len(net.produced) >= 1 and maps is net.produced[-1][1], "returned_maps_not_the_last_computed", desc)
        made_at = net.produced[-1][0]
        ctx.check(abs(float(ds) - made_at) <= 1e-9 * made_at, "factor_is_not_that_of_the_returned_maps",
                  lambda: "page %dx%d text %d px: maps computed at %.4f, factor handed on %.4f (runs at %r); " % (h, w, text_px, made_at, float(ds), [p[0] for p in net.produced]) + desc())
        bound = math.sqrt(h * w / (case["max_mp"] * 10e5))
        ctx.check(float(ds) >= bound - 1e-9, "memory_bound_ignored", lambda: "factor %.4f below %.4f; " % (float(ds), bound) + desc())
        ctx.check(abs(maps.shape[0] - h / float(ds)) <= 1.0 and abs(maps.shape[1] - w / float(ds)) <= 1.0, "map_size_does_not_match_factor",
                  lambda: "maps %r page %dx%d factor %.4f; " % (maps.shape, h, w, float(ds)) + desc())
        if len(net.produced) == 2:
            ctx.event("network_run_again_at_adapted_resolution")
        first = net.produced[0][0]
        med = text_px / first
        if case["adaptive"] and (med > 15 or med < 9) and len(net.produced) == 1:
            ctx.event("adaptation_wanted_but_within_20_percent_or_bounded")
            ctx.nontrivial(("provider", repr(case)))
        elif len(net.produced) == 2:
            ctx.nontrivial(("provider", repr(case)))


UNITS = [
    Unit("parse", "given", body=body_parse, strategy=strat_map(False), quick=400, thorough=8000),
    Unit("many_ridges", "given", body=body_many, strategy=strat_many, quick=8, thorough=64, shards_quick=4),
    Unit("detect", "given", body=body_detect, strategy=strat_map(True), quick=200, thorough=4000),
    Unit("map_provider", "given", body=body_provider, strategy=strat_provider, quick=300, thorough=4000),
]
