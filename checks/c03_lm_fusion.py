"""C03 - LM fusion: LM score is the LM's own score; result maximises vis + scale*LM."""
import copy
import math

import numpy as np

from vlib.core import Unit
from vlib import ctc
from vlib.gen import logprob_matrix, render_matrix
from vlib.lms import HashLM, make_torch_lm
from checks.c02_ctc_beam import LETTERS, letters_for, select_all, to_tuple

PROPERTY = "C03"
LEVEL = "exploration"
RULE = ("CTC matrices as in C02 combined with LM scale in [0,3] (0 and 1 boosted), insertion bonus in [0,2], "
        "end-of-line modelling on/off, a supplied start state or none, beam widths {1,2,3,5,10,10^4}, both selectors, "
        "and two toy LMs: HashLM (state = whole prefix, score = SHA-256 of (seed, prefix, symbol); pure Python) and a "
        "random-weight float64 LSTM LM behind the real LMWrapper/HiddenState. Oracle: the LM applied sequentially to "
        "each returned transcript outside the search; arg max of vis + scale*lm over the returned bag; the LM-free "
        "decoder for scale 0; a reference prefix beam search ranking by vis + scale*lm. Non-trivial: >= 2 hypotheses "
        "whose order by vis + scale*lm differs from the order by vis, in a search where the beam dropped a candidate "
        "or joined a prefix; distinct by (matrix, configuration).")
ASSUMPTIONS = ["identity clauses (best_hyp, returned state, confidence) are asserted only when the two best totals "
               "differ by more than 1e-9", "LM scores are finite"]


def build(ctx, case):
    (fam, M), k, sel, scale, bonus, eos, start, lm_seed, lm_type = case
    from pero_ocr.decoding.decoders import CTCPrefixLogRawNumpyDecoder, select_relevant_logits
    T, C = M.shape
    selector = select_all if sel == "all" else select_relevant_logits
    if lm_type == "hash":
        lm = HashLM(lm_seed, C - 1)
        init_h = lm.state_after(start) if start is not None else None
        start_p = tuple(start) if start is not None else ()

        def seq(transcript):
            s, p = lm.seq_score(start_p, transcript, bonus, eos)
            return s, p
        tol = 1e-9
    else:
        from pero_ocr.decoding.lm_wrapper import LMWrapper
        raw = make_torch_lm(lm_seed, LETTERS[:C - 1])
        lm = LMWrapper(raw, LETTERS[:C - 1], "cpu")
        if start is not None:
            init_h = ctx.must("initial_h_from_line_raises", lm.initial_h_from_line, "".join(LETTERS[c] for c in start))
        else:
            init_h = None

        # the LM's own scores are read from the network itself (an evaluation-mode copy), not through the wrapper under test:
        # state after '</s>' (+ the start line + '</s>'), distribution = decoder(top-layer hidden state), symbol c has vocabulary
        # index c + 2
        import torch
        from pero_ocr.decoding.lm_wrapper import HiddenState
        net = copy.deepcopy(raw).eval()

        def seq(transcript):
            with torch.no_grad():
                ins = [net.vocab["</s>"]]
                if start is not None:
                    ins = ins + [net.vocab[LETTERS[c]] for c in start] + [net.vocab["</s>"]]
                _, h = net.model(torch.tensor([ins]), net.model.init_hidden(1))
                s = 0.0
                for c in transcript:
                    s = s + float(net.decoder(h[0][-1])[0, int(c) + 2]) + bonus
                    _, h = net.model(torch.tensor([[int(c) + 2]]), h)
                if eos:
                    s += float(net.decoder(h[0][-1])[0, net.vocab["</s>"]])
            return s, HiddenState(h)
        tol = 1e-7
    dec = CTCPrefixLogRawNumpyDecoder(letters_for(C), k, lm=lm, lm_scale=scale, insertion_bonus=bonus,
                                      relevant_logits_selector=selector)
    plain = CTCPrefixLogRawNumpyDecoder(letters_for(C), k, relevant_logits_selector=selector)
    return dec, plain, lm, init_h, seq, tol


def states_equal(lm_type, got, want):
    if lm_type == "hash":
        return len(got.p) == 1 and got.p[0] == want
    import torch
    a, b = got.prepare_for_torch(), want.prepare_for_torch()
    return all(x.shape == y.shape and torch.allclose(x, y, atol=1e-9, rtol=1e-7) for x, y in zip(a, b))


def render_case(case):
    (fam, M), k, sel, scale, bonus, eos, start, lm_seed, lm_type = case
    return "lm=%s seed=%d k=%d selector=%s scale=%r bonus=%r eos=%r start=%r family=%s matrix=%s" % (
        lm_type, lm_seed, k, sel, scale, bonus, eos, start, fam, render_matrix(M))


def body(ctx, case):
    (fam, M), k, sel, scale, bonus, eos, start, lm_seed, lm_type = case
    T, C = M.shape
    if k > 10 and C ** T > 4000:
        k = 10
        case = ((fam, M), k) + tuple(case[2:])
    if T > 30 and k > 4:
        k = 4
        case = ((fam, M), k) + tuple(case[2:])
    dec, plain, lm, init_h, seq, tol = build(ctx, case)
    desc = lambda: render_case(case)
    ctx.event("lm:" + lm_type)
    ctx.event("scale0" if scale == 0 else "scale>0")
    if eos:
        ctx.event("eos")
    if start is not None:
        ctx.event("start_state")
    given = copy.deepcopy(init_h)
    with np.errstate(all="ignore"):
        res = ctx.must("decoder_raises", dec, M.copy(), model_eos=eos, return_h=True, init_h=given)
    boh, h_ret = res
    # the start state is the caller's object (the state carried over from the previous line): decoding must not alter it
    if init_h is not None:
        if lm_type == "hash":
            same = repr(getattr(given, "p", None)) == repr(getattr(init_h, "p", None))
        else:
            same = states_equal(lm_type, given, init_h)
        ctx.check(same, "decoder_alters_the_given_start_state", desc)
    hyps = [(h.transcript, float(h.vis_sc), float(h.lm_sc)) for h in boh]
    ctx.check(len({t for t, _, _ in hyps}) == len(hyps), "duplicate_transcripts", lambda: "%r; " % (hyps,) + desc())
    # 1. LM bookkeeping
    for t, v, l in hyps:
        want, _ = seq(to_tuple(t))
        ctx.check(abs(l - want) <= tol * (1 + abs(want)), "lm_score_not_lm_own_score",
                  lambda: "transcript %r lm_sc=%r, LM applied to the transcript gives %r; " % (t, l, want) + desc())
        fwd = ctc.forward_score(M, to_tuple(t))
        ctx.check(v <= fwd + 1e-9 * (1 + abs(fwd)), "score_exceeds_ctc_probability", lambda: "transcript %r vis=%r ctc=%r; " % (t, v, fwd) + desc())
    # 2. best hypothesis
    totals = sorted(((v + scale * l, t) for t, v, l in hyps), reverse=True)
    unique_best = len(totals) == 1 or totals[0][0] - totals[1][0] > 1e-9
    best = ctx.must("best_hyp_raises", boh.best_hyp)
    if unique_best:
        ctx.check(best == totals[0][1], "best_hyp_not_argmax_of_vis_plus_scaled_lm",
                  lambda: "best_hyp()=%r but arg max of vis+scale*lm is %r; bag=%r; " % (best, totals[0][1], hyps) + desc())
        # 3. confidence is the posterior of that hypothesis
        conf = boh.confidence()
        tc = boh.transcript_confidence(best)
        ctx.check(abs(conf - tc) <= 1e-12, "confidence_not_of_best_hyp", lambda: "confidence()=%r transcript_confidence(best)=%r; " % (conf, tc) + desc())
        # 4. returned state belongs to it
        _, want_state = seq(to_tuple(best))
        if lm_type != "hash" and eos:
            pass
        ctx.check(states_equal(lm_type, h_ret, want_state), "returned_state_not_of_best_hyp",
                  lambda: "best_hyp()=%r returned state %r; bag=%r; " % (best, h_ret if lm_type == "hash" else "<tensor>", hyps) + desc())
    else:
        ctx.event("tie_for_best")
    # the same decoder (and LM wrapper) reused: decoding another line in between must not change this line's result
    other = np.roll(M, 1, axis=0).copy()
    with np.errstate(all="ignore"):
        dec(other, model_eos=eos, return_h=True, init_h=copy.deepcopy(init_h))
        again = ctx.must("decoder_raises", dec, M.copy(), model_eos=eos, return_h=True, init_h=copy.deepcopy(init_h))
    hyps_again = [(h.transcript, float(h.vis_sc), float(h.lm_sc)) for h in again[0]]
    ctx.check(sorted(hyps_again) == sorted(hyps), "result_depends_on_decoder_history",
              lambda: "first %r, after another line %r; " % (sorted(hyps), sorted(hyps_again)) + desc())
    # the bag and the state handed back for the first call are still what they were
    hyps_later = [(h.transcript, float(h.vis_sc), float(h.lm_sc)) for h in boh]
    ctx.check(hyps_later == hyps, "earlier_bag_changed_by_a_later_call", lambda: "was %r, is %r; " % (hyps, hyps_later) + desc())
    if unique_best:
        ctx.check(states_equal(lm_type, h_ret, want_state), "returned_state_changed_by_a_later_call", desc)
    # the same decoder used for a later line that starts from a *different* LM state, and through the plain call
    # (no state returned, no end-of-line modelling): every reported LM score is still the LM's own score
    if lm_type == "hash":
        start2 = (tuple(start) if start is not None else ()) + (0,)
        with np.errstate(all="ignore"):
            later = ctx.must("decoder_raises", dec, M.copy(), init_h=lm.state_after(start2))
        for h in later:
            want2, _ = lm.seq_score(start2, to_tuple(h.transcript), bonus, False)
            ctx.check(abs(float(h.lm_sc) - want2) <= 1e-9 * (1 + abs(want2)), "lm_score_not_lm_own_score",
                      lambda: "later line from start state %r: transcript %r lm_sc=%r, LM gives %r; " % (start2, h.transcript, float(h.lm_sc), want2) + desc())
    if lm_type == "hash":
        # the LM of a live decoder is exchanged (configurations attach the LM after the decoder was built): from then on every
        # score is the new LM's own score
        old_lm = dec._lm
        dec._lm = HashLM(lm_seed + 1, C - 1)
        try:
            with np.errstate(all="ignore"):
                swapped = ctx.must("decoder_raises", dec, M.copy())
            for h in swapped:
                want3, _ = dec._lm.seq_score((), to_tuple(h.transcript), bonus, False)
                ctx.check(abs(float(h.lm_sc) - want3) <= 1e-9 * (1 + abs(want3)), "lm_score_not_lm_own_score",
                          lambda: "after the LM was exchanged: transcript %r lm_sc=%r, the new LM gives %r; " % (h.transcript, float(h.lm_sc), want3) + desc())
        finally:
            dec._lm = old_lm
    if not eos:
        with np.errstate(all="ignore"):
            plain_call = ctx.must("decoder_raises", dec, M.copy(), init_h=copy.deepcopy(init_h))
        got_plain = sorted((h.transcript, round(float(h.vis_sc), 9), round(float(h.lm_sc), 7)) for h in plain_call)
        want_plain = sorted((t, round(v, 9), round(l, 7)) for t, v, l in hyps)
        ctx.check(got_plain == want_plain, "plain_call_differs_from_call_with_returned_state",
                  lambda: "plain %r with return_h %r; " % (got_plain, want_plain) + desc())
    post = boh.posteriors()
    ctx.check(abs(ctc.lse([float(x) for x in post])) < 1e-9, "posteriors_do_not_sum_to_one", desc)
    # 5. scale 0 reproduces LM-free decoding
    if scale == 0:
        with np.errstate(all="ignore"):
            pboh = plain(M.copy())
        a = sorted((h.transcript, round(float(h.vis_sc), 9)) for h in pboh)
        b = sorted((t, round(v, 9)) for t, v, _ in hyps)
        ctx.check(a == b, "scale0_differs_from_lm_free", lambda: "with LM %r without %r; " % (b, a) + desc())
        ptot = sorted(((float(h.vis_sc), h.transcript) for h in pboh), reverse=True)
        if len(ptot) == 1 or ptot[0][0] - ptot[1][0] > 1e-9:
            ctx.check(best == pboh.best_hyp(), "scale0_best_hyp_differs", lambda: "%r vs %r; " % (best, pboh.best_hyp()) + desc())
    # 6. reference beam search with the same ranking
    if lm_type == "hash":
        start_p = tuple(start) if start is not None else ()
        ref = ctc.ref_prefix_beam_search(M, k, None if sel == "all" else -10.0,
                                         lm=lambda p, c: lm.score(start_p + p, c), scale=scale, bonus=bonus)
        if not ref.ambiguous:
            got = {to_tuple(t): v for t, v, _ in hyps if v != ctc.NEG}
            ctx.check(set(got) == set(ref.hyps), "differs_from_reference_beam_search",
                      lambda: "returned %r reference %r; " % (sorted(got), sorted(ref.hyps)) + desc())
            for p, (v, _) in ref.hyps.items():
                ctx.check(abs(got[p] - v) <= 1e-9 * (1 + abs(v)), "score_differs_from_reference_beam_search", desc)
        by_total = [t for _, t in totals]
        by_vis = [t for _, t in sorted(((v, t) for t, v, _ in hyps), reverse=True)]
        if len(hyps) >= 2 and by_total != by_vis and (ref.dropped or ref.joined):
            ctx.nontrivial(("hash", M.tobytes(), M.shape, case[1:]), sample=render_case(case))
        if ref.dropped:
            ctx.event("beam_dropped")
        if ref.joined:
            ctx.event("prefix_joined")
    else:
        by_total = [t for _, t in totals]
        by_vis = [t for _, t in sorted(((v, t) for t, v, _ in hyps), reverse=True)]
        if len(hyps) >= 2 and by_total != by_vis:
            ctx.nontrivial(("lstm", M.tobytes(), M.shape, case[1:]), sample=render_case(case))


def strat(lm_type):
    def make():
        from hypothesis import strategies as st
        scale = st.sampled_from([0.0, 1.0, 0.7, 0.3, 2.0, 3.0]) | st.floats(0.0, 3.0, allow_nan=False)
        bonus = st.sampled_from([0.0, 0.5, 2.0]) | st.floats(0.0, 2.0, allow_nan=False)

        @st.composite
        def case(draw):
            fam, M = draw(logprob_matrix(max_T=7, max_C=5, long_lines=(lm_type == "hash"), big_alphabet=True))
            C = M.shape[1]
            start = draw(st.none() | st.lists(st.integers(0, C - 2), min_size=0, max_size=3).map(tuple))
            return ((fam, M), draw(st.sampled_from([1, 2, 3, 5, 10, 10000] if lm_type == "hash" else [1, 2, 3, 5, 10])), draw(st.sampled_from(["default", "all"])),
                    draw(scale), draw(bonus), draw(st.booleans()), start, draw(st.integers(0, 10 ** 6)), lm_type)
        return case()
    return make


# ---------------------------------------------------------------- what the page-level decoder hands on
PD_TABLES = [["a", " ", "b", "c"], [" ", "a", "b", "\u200b", "c"], ["a", "b", "c", "d"], ["\t", "a", " ", "b"]]


def strat_page_decoder():
    from hypothesis import strategies as st

    @st.composite
    def case(draw):
        tab = draw(st.sampled_from(PD_TABLES))
        C = len(tab) + 1
        n = draw(st.integers(1, 4))
        paths = [draw(st.lists(st.integers(0, C - 1), min_size=1, max_size=9)) for _ in range(n)]
        edge = draw(st.booleans())
        if edge:        # a line that starts or ends with the table's space-like character
            sp = [i for i, ch in enumerate(tab) if not ch.strip() or ch == "\u200b"]
            if sp:
                paths[0] = [sp[0]] + paths[0] + [sp[-1]]
        return (tab, paths, draw(st.sampled_from([2, 5, 20])), draw(st.sampled_from([0.0, 0.5, 1.0])), draw(st.integers(0, 10 ** 6)),
                draw(st.booleans()))
    return case()


def body_page_decoder(ctx, case):
    """PageDecoder stores, as the line's transcription, exactly the best hypothesis of the bag the decoder returned."""
    from pero_ocr.core.layout import PageLayout, RegionLayout, TextLine
    from pero_ocr.decoding.decoders import CTCPrefixLogRawNumpyDecoder, BLANK_SYMBOL
    from pero_ocr.document_ocr.page_parser import PageDecoder, prepare_dense_logits
    from vlib.pages import sparsify
    tab, paths, k, scale, seed, carry = case
    C = len(tab) + 1
    letters = tab + [BLANK_SYMBOL]
    rs = np.random.RandomState(seed)

    def make_decoder():
        lm = HashLM(seed, C - 1) if scale > 0 else None
        return CTCPrefixLogRawNumpyDecoder(letters, k, lm=lm, lm_scale=scale if lm else 1.0)
    page = PageLayout(id="p", page_size=(100, 400))
    reg = RegionLayout("r", np.asarray([[0, 0], [400, 0], [400, 100], [0, 100]], dtype=np.float64))
    for i, p in enumerate(paths):
        dense = rs.uniform(-3, 0, size=(len(p), C))
        for t, c in enumerate(p):
            dense[t, c] = rs.uniform(4, 9)
        line = TextLine(id="l%d" % i, baseline=np.asarray([[5.0, 20.0 * i + 10], [300.0, 20.0 * i + 10]]),
                        polygon=np.asarray([[5.0, 20.0 * i], [300.0, 20.0 * i], [300.0, 20.0 * i + 14], [5.0, 20.0 * i + 14]]), heights=[10.0, 4.0])
        line.logits = sparsify(dense)
        line.characters = list(tab) + ["\u200b"]
        line.logit_coords = [0, len(p)]
        line.transcription = "?"
        reg.lines.append(line)
    page.regions = [reg]
    want = []
    ref = make_decoder()
    for line in reg.lines:
        want.append(ctx.must("decoder_raises", ref, prepare_dense_logits(line)).best_hyp())
    pd = PageDecoder(make_decoder())
    ctx.must("page_decoder_raises", pd.process_page, page)
    got = [l.transcription for l in reg.lines]
    ctx.check(got == want, "page_decoder_does_not_hand_on_the_best_hypothesis",
              lambda: "table=%r paths=%r k=%d scale=%r stored %r best hypotheses %r" % (tab, paths, k, scale, got, want))
    if any(w != w.strip() or "\u200b" in w for w in want):
        ctx.event("best_hypothesis_with_edge_whitespace_or_zero_width")
        ctx.nontrivial(("pd", tuple(tab), tuple(map(tuple, paths)), k, scale, seed))
    elif len(want) >= 2 and len(set(want)) >= 2:
        ctx.nontrivial(("pd", tuple(tab), tuple(map(tuple, paths)), k, scale, seed))


# ---------------------------------------------------------------- the state carried from line to line
def strat_carry():
    from hypothesis import strategies as st

    @st.composite
    def case(draw):
        C = draw(st.integers(3, 5))
        n = draw(st.integers(2, 7))
        lines = []
        for _ in range(n):
            kind = draw(st.sampled_from(["ok", "ok", "ok", "ok", "no_logits", "no_frames", "sure"]))
            lines.append((kind, draw(st.lists(st.integers(0, C - 1), min_size=1, max_size=6))))
        return (C, lines, draw(st.sampled_from([1, 3, 10])), draw(st.sampled_from([0.5, 1.0, 2.0])), draw(st.integers(0, 10 ** 6)),
                draw(st.sampled_from([None, None, 0.9])))
    return case()


class SpyDecoder:
    """forwards to the real decoder and records the start state every call was given"""

    def __init__(self, dec):
        self.dec = dec
        self._lm = dec._lm
        self.seen = []

    def __call__(self, logits, **kw):
        h = kw.get("init_h")
        self.seen.append(None if h is None else list(h.p))
        return self.dec(logits, **kw)


def body_carry(ctx, case):
    """PageDecoder with carry_h_over: the start state handed to the decoder for a line is the state the decoder returned for
    the previous decoded line of the page (best hypothesis, line end added) - also when lines in between could not be decoded
    (no logits, no frames) -, the page's first line starts from the LM's initial state, and the line after a line that was
    confident enough to be skipped starts from the LM primed with that line's text. The stored transcription is the best
    hypothesis of an identically configured decoder started from that state."""
    from pero_ocr.core.layout import PageLayout, RegionLayout, TextLine
    from pero_ocr.decoding.decoders import CTCPrefixLogRawNumpyDecoder, BLANK_SYMBOL
    from pero_ocr.document_ocr.page_parser import PageDecoder
    from scipy import sparse
    from vlib.pages import sparsify
    C, lines, k, scale, seed, thr = case
    tab = LETTERS[:C - 1]
    letters = tab + [BLANK_SYMBOL]
    rs = np.random.RandomState(seed)

    def make_decoder():
        return CTCPrefixLogRawNumpyDecoder(letters, k, lm=HashLM(seed, C - 1), lm_scale=scale)
    page = PageLayout(id="p", page_size=(200, 400))
    reg = RegionLayout("r", np.asarray([[0, 0], [400, 0], [400, 200], [0, 200]], dtype=np.float64))
    dense_of = {}
    for i, (kind, p) in enumerate(lines):
        line = TextLine(id="l%d" % i, baseline=np.asarray([[5.0, 20.0 * i + 10], [300.0, 20.0 * i + 10]]),
                        polygon=np.asarray([[5.0, 20.0 * i], [300.0, 20.0 * i], [300.0, 20.0 * i + 14], [5.0, 20.0 * i + 14]]), heights=[10.0, 4.0])
        line.characters = list(tab) + ["\u200b"]
        line.transcription = "prior%d" % i
        if kind == "no_logits":
            line.logits = None
            line.logit_coords = [None, None]
        elif kind == "no_frames":
            line.logits = sparse.csc_matrix(np.zeros((0, C), dtype=np.float32))
            line.logit_coords = [0, 0]
        else:
            dense = rs.uniform(-3, 0, size=(len(p), C))
            for t, c in enumerate(p):
                dense[t, c] = rs.uniform(14, 16) if kind == "sure" else rs.uniform(0.5, 3)      # 'ok' lines are ambiguous: the LM matters
            line.logits = sparsify(dense)
            line.logit_coords = [0, len(p)]
            dense_of[i] = line.get_full_logprobs()
        reg.lines.append(line)
    page.regions = [reg]
    spy = SpyDecoder(make_decoder())
    pd = PageDecoder(spy, line_confidence_threshold=thr, carry_h_over=True)
    import logging
    logging.disable(logging.CRITICAL)
    try:
        ctx.must("page_decoder_raises", pd.process_page, page)
    finally:
        logging.disable(logging.NOTSET)
    # the model
    ref = make_decoder()
    last_h, last_line = None, None
    want_seen, want_text = [], []
    for i, (kind, p) in enumerate(lines):
        prior = "prior%d" % i
        if kind == "no_logits":
            want_text.append(prior)
            continue
        if kind == "no_frames" and thr is not None:
            want_text.append(prior)         # the confident-line test itself fails on a line without frames: nothing changes
            continue
        if kind != "no_frames" and thr is not None:
            lp = dense_of[i]
            worst = float(np.exp(lp.max(axis=1).min()))
            if abs(worst - thr) < 1e-6:
                ctx.event("at_threshold_skipped")
                return
            if worst > thr:
                last_h, last_line = None, prior
                want_text.append(prior)
                continue
        if last_h is None and last_line:
            last_h = [("line", str(last_line))]
        want_seen.append(None if last_h is None else list(last_h))
        if kind == "no_frames":
            want_text.append(prior)
            continue
        init = None if last_h is None else ref._lm.state_after(last_h[0])
        boh, h_ret = ctx.must("decoder_raises", ref, dense_of[i].copy(), return_h=True, init_h=init)
        best = boh.best_hyp()
        want_text.append(best)
        last_h = [tuple(h_ret.p[0]) + ("nl",)]
        last_line = best
    desc = lambda: "C=%d lines=%r k=%d scale=%r seed=%d threshold=%r" % (C, lines, k, scale, seed, thr)
    ctx.check(spy.seen == want_seen, "state_carried_to_the_next_line_is_not_the_returned_state",
              lambda: "start states handed to the decoder %r, expected %r; " % (spy.seen, want_seen) + desc())
    got = [l.transcription for l in reg.lines]
    ctx.check(got == want_text, "line_not_decoded_from_the_carried_state",
              lambda: "stored %r expected %r; " % (got, want_text) + desc())
    kinds = [k_ for k_, _ in lines]
    decoded = [j for j, k_ in enumerate(kinds) if k_ in ("ok", "sure")]
    failing = [j for j, k_ in enumerate(kinds) if k_ in ("no_logits", "no_frames")]
    if any(a < f < b for f in failing for a in decoded[1:] for b in decoded):
        ctx.event("undecodable_line_between_decoded_lines")
        ctx.nontrivial(("carry", C, tuple((k_, tuple(p_)) for k_, p_ in lines), k, scale, seed, thr))
    elif len(decoded) >= 3:
        ctx.nontrivial(("carry", C, tuple((k_, tuple(p_)) for k_, p_ in lines), k, scale, seed, thr))


# ---------------------------------------------------------------- the complete small grid with the LSTM LM behind the real wrapper
def lstm_grid_cases(tier):
    import itertools
    from vlib import ctc as _ctc
    comps = [c for c in itertools.product(range(5), repeat=3) if sum(c) == 4]
    out = []
    for T in (1, 2, 3):
        for rows in itertools.product(comps, repeat=T):
            for k in (1, 2, 3):
                for eos in (True, False):
                    if T == 3 and tier == "quick" and not (k == 2 and eos):
                        continue        # quick: the three-frame grid with beam width 2 and end-of-line modelling only
                    out.append((rows, k, eos))
    return out


def body_lstm_grid(ctx, case):
    from vlib import ctc as _ctc
    rows, k, eos = case
    M = np.array([[math.log(x / 4.0) if x else _ctc.NEG for x in r] for r in rows], dtype=np.float64)
    body(ctx, (("grid", M), k, "default", 1.0, 0.0, eos, None, len(rows), "lstm"))


UNITS = [
    Unit("hashlm", "given", body=body, strategy=strat("hash"), quick=3000, thorough=40000, render=render_case),
    Unit("lstmlm", "given", body=body, strategy=strat("lstm"), quick=600, thorough=6000, render=render_case),
    Unit("lstm_grid", "enum", body=body_lstm_grid, cases=lstm_grid_cases, exhaustive=True),
    Unit("page_decoder", "given", body=body_page_decoder, strategy=strat_page_decoder, quick=400, thorough=6000),
    Unit("carry_over", "given", body=body_carry, strategy=strat_carry, quick=400, thorough=6000),
]
