"""C19 - engine merging keeps, per line, the most confident engine's result."""
import copy
import importlib.util
import os

import numpy as np

from vlib.core import Unit

PROPERTY = "C19"
LEVEL = "exploration"
RULE = ("1-4 engine outputs for one page skeleton (same ids and geometry): per engine and line an engine-specific "
        "character table (different order/size), a transcription inside that table (possibly empty/None) and sparse "
        "logits that match it, mismatch it (confidence 0), are too short to align (0.5 fallback) or are shared with "
        "another engine (exact tie); drawn engine order and pre-existing confidences. Oracle: per-line confidence "
        "recomputed by the check from each engine's own data with get_line_confidence; expected winner = first engine "
        "attaining the maximum positive mean; identity of the (transcription, logits object, table) triple; geometry "
        "and ids unchanged; self-merge is the identity. Non-trivial: >= 2 engines with a line won by an engine other "
        "than the first, or an exact tie; distinct by the case.")
ASSUMPTIONS = ["the per-engine confidence is whatever get_line_confidence reports for that engine's data (C16 covers its own properties)",
               "when the first engine's transcription is empty and no engine has a positive mean nothing is ranked"]

MASTER = list("abcdefgh ")
_MOD = None


def merge_module():
    global _MOD
    if _MOD is None:
        path = os.path.join(os.environ.get("VERIF_REPO", "/repo"), "user_scripts", "merge_ocr_results.py")
        spec = importlib.util.spec_from_file_location("verif_merge_ocr_results", path)
        _MOD = importlib.util.module_from_spec(spec)
        spec.loader.exec_module(_MOD)
    return _MOD


def strat():
    from hypothesis import strategies as st
    from vlib.pages import line_geometry

    @st.composite
    def case(draw):
        n_lines = draw(st.integers(1, 4)) if draw(st.integers(0, 11)) else draw(st.integers(20, 45))
        n_eng = draw(st.integers(1, 4))
        # one page in eight carries full text lines (64-110 characters, 130-220 trellis states in the alignment)
        long_text = draw(st.integers(0, 7)) == 0
        if long_text:
            n_lines = min(n_lines, 2)
        geoms = []
        y = 50
        for _ in range(n_lines):
            geoms.append(draw(line_geometry(y=y)))
            y += 70
        engines = []
        for e in range(n_eng):
            table = list(draw(st.permutations(MASTER)))
            table = table[:draw(st.integers(3, len(table)))]
            lines = []
            for li in range(n_lines):
                mode = draw(st.sampled_from(["match", "match", "mismatch", "short", "empty", "none", "share", "per_char"]))
                text = "".join(draw(st.lists(st.sampled_from(table), min_size=1, max_size=7)))
                if long_text:
                    reps = draw(st.integers(10, 16))
                    text = (text * reps)[:draw(st.integers(64, 110))]
                    if len(text) < 64:
                        text = (text * 64)[:64]
                lines.append(dict(mode=mode, text=text, seed=draw(st.integers(0, 2 ** 31 - 1)),
                                  confuse=draw(st.sampled_from([0.0, 0.4, 0.9])),
                                  peak=draw(st.sampled_from([(6.0, 14.0), (0.5, 2.0)])),
                                  prev_conf=draw(st.one_of(st.none(), st.floats(0, 1, allow_nan=False))),
                                  share_from=draw(st.integers(0, 3))))
            engines.append(dict(table=table, lines=lines))
        # line ids: unique on the page, numbered inside every region (l0, l1 in each), or missing
        return dict(geoms=geoms, engines=engines, nreg=draw(st.integers(1, 2)), ids=draw(st.sampled_from(["page", "page", "region", "none"])))
    return case()


def build_layouts(case):
    from pero_ocr.core.layout import PageLayout, RegionLayout
    from vlib.pages import build_line, region_polygon_around
    layouts = []
    flat = []
    for e, eng in enumerate(case["engines"]):
        flat.append([])
        chars = eng["table"] + ["​"]
        pl = PageLayout(id="page", page_size=(1000, 1500))
        groups = [[] for _ in range(case["nreg"])]
        for li, (geom, spec) in enumerate(zip(case["geoms"], eng["lines"])):
            mode = spec["mode"]
            if mode == "share" and e > 0:
                src_line = flat[spec["share_from"] % e][li]
                line = copy.deepcopy(src_line)
                line.transcription_confidence = spec["prev_conf"]
            else:
                text = spec["text"]
                if mode == "mismatch":
                    spare = [c for c in eng["table"] if c not in text]
                    # logits for a text that shares no character with the transcription: every character
                    # confidence is clipped to exactly 0 (mean 0: "not positive")
                    other = (spare[0] * (len(text) + 1)) if spare else text[::-1] + text[:1]
                    line = build_line("l%d" % li, geom, other, chars, spec["seed"], confuse=spec["confuse"], peak=spec["peak"])
                    line.transcription = text
                elif mode == "per_char":
                    # an engine that emits exactly one output row per character (transformer decoders)
                    from vlib.pages import logits_for_path, sparsify
                    line = build_line("l%d" % li, geom, text, chars, spec["seed"], confuse=spec["confuse"], peak=spec["peak"])
                    rs_pc = np.random.RandomState(spec["seed"])
                    cmap_pc = {c: i for i, c in enumerate(chars[:-1])}
                    dense_pc = logits_for_path([cmap_pc[ch] for ch in text], len(chars), rs_pc, confuse=spec["confuse"], peak=spec["peak"])
                    line.logits = sparsify(dense_pc)
                    line.logit_coords = [0, len(text)]
                elif mode == "short":
                    line = build_line("l%d" % li, geom, text[:1], chars, spec["seed"], pad_frames=(0, 0))
                    line.logits = line.logits[:max(1, min(line.logits.shape[0], len(text) - 1))] if len(text) > 1 else line.logits
                    line.transcription = text + text
                else:
                    line = build_line("l%d" % li, geom, text, chars, spec["seed"], confuse=spec["confuse"], peak=spec["peak"])
                    if mode == "empty":
                        line.transcription = ""
                    elif mode == "none":
                        line.transcription = None
                line.transcription_confidence = spec["prev_conf"]
            if e > 0 and spec["seed"] % 2:
                # the engines were run on their own copies of the layout: same ids, geometry differing by rounding
                line.baseline = line.baseline + 1.0
                line.polygon = line.polygon + 1.0
                line.heights = [line.heights[0] + 1.0, line.heights[1]]
                line.index = 7
            line.verif_pos = li
            scheme = case.get("ids", "page")
            if scheme == "region":
                line.id = "l%d" % (li // case["nreg"])
            elif scheme == "none":
                line.id = None
            groups[li % case["nreg"]].append(line)
            flat[e].append(line)
        for r, g in enumerate(groups):
            if g:
                reg = RegionLayout("r%d" % r, region_polygon_around([x.polygon for x in g]))
                reg.lines = g
                pl.regions.append(reg)
        layouts.append(pl)
    return layouts


def own_confidence(line):
    from pero_ocr.core.confidence_estimation import get_line_confidence
    if line.transcription is None or line.transcription == "":
        return None
    cmap = {c: i for i, c in enumerate(line.characters)}
    idx = np.asarray([cmap[c] for c in line.transcription])
    try:
        conf = get_line_confidence(copy.deepcopy(line), idx)
    except ValueError:
        conf = np.ones(len(line.transcription)) * 0.5
    return float(np.asarray(conf).mean())


def snapshot(layout):
    return [(r.id, np.asarray(r.polygon).tolist(), [(l.id, np.asarray(l.baseline).tolist(), np.asarray(l.polygon).tolist(),
                                                       list(l.heights), l.index) for l in r.lines]) for r in layout.regions]


def body(ctx, case):
    M = merge_module()
    layouts = build_layouts(case)
    n_eng = len(layouts)
    per_engine = [sorted(pl.lines_iterator(), key=lambda l: l.verif_pos) for pl in layouts]
    if case.get("ids") in ("region", "none") and len(case["geoms"]) >= 2:
        ctx.event("line_ids_not_unique_on_the_page")
    # oracle side: everything needed is read before the merge mutates engine 0
    expect = []
    tie = False
    nonfirst = False
    for li in range(len(case["geoms"])):
        confs = [own_confidence(per_engine[e][li]) for e in range(n_eng)]
        pos = [(c, e) for e, c in enumerate(confs) if c is not None and c > 0]
        first = per_engine[0][li]
        if pos:
            mx = max(c for c, _ in pos)
            winners = [e for c, e in pos if c == mx]
            w = winners[0]
            if len(winners) > 1:
                tie = True
            if w != 0:
                nonfirst = True
            src = per_engine[w][li]
            expect.append(dict(t=src.transcription, logits=src.logits, chars=src.characters, conf=mx, winner=w, confs=confs))
        else:
            expect.append(dict(t=first.transcription, logits=first.logits, chars=first.characters,
                               conf=first.transcription_confidence, winner=None, confs=confs))
    geo_before = snapshot(layouts[0])
    desc = lambda: "case=%r expected=%r" % (case, [(x["winner"], x["confs"]) for x in expect])
    ctx.must("merge_raises", M.merge_layouts, layouts)
    merged = sorted(layouts[0].lines_iterator(), key=lambda l: l.verif_pos)
    for li, (line, ex) in enumerate(zip(merged, expect)):
        info = lambda: "line %d: got transcription %r conf %r; expected winner %r transcription %r conf %r; " % (
            li, line.transcription, line.transcription_confidence, ex["winner"], ex["t"], ex["conf"]) + desc()
        ctx.check(line.transcription == ex["t"], "merged_transcription_not_of_most_confident_engine", info)
        # independent of the library's own confidence: an engine whose logits were built around its transcription with
        # strong peaks and no competitor has every character confidence close to 1, so the merged line must be that confident
        clean = [e for e, eng in enumerate(case["engines"]) if eng["lines"][li]["mode"] in ("match", "per_char") and eng["lines"][li]["confuse"] == 0.0
                 and tuple(eng["lines"][li]["peak"]) == (6.0, 14.0)]
        if clean:
            ctx.check(line.transcription_confidence is not None and line.transcription_confidence >= 0.99, "clean_engine_result_not_recognised_as_confident",
                      lambda: "engines %r carry a clean result for this line; " % (clean,) + info())
            ctx.event("clean_engine_line" + ("_of_64+_characters" if len(case["engines"][clean[0]]["lines"][li]["text"]) >= 64 else ""))
        ctx.check(line.logits is ex["logits"], "merged_logits_not_of_winning_engine", info)
        ctx.check(line.characters is ex["chars"], "merged_characters_not_of_winning_engine", info)
        if ex["winner"] is not None:
            ctx.check(line.transcription_confidence is not None and abs(line.transcription_confidence - ex["conf"]) < 1e-12,
                      "merged_confidence_not_maximum", info)
        else:
            ctx.check(line.transcription_confidence == ex["conf"] or (line.transcription_confidence is None and ex["conf"] is None),
                      "confidence_changed_without_winner", info)
    ctx.check(snapshot(layouts[0]) == geo_before, "geometry_or_ids_altered", desc)
    # self-merge: nothing changes, idempotent
    a = layouts[0]
    before = [(l.transcription, l.logits, l.characters) for l in a.lines_iterator()]
    b = copy.deepcopy(a)
    ctx.must("merge_raises", M.merge_layouts, [a, b])
    after = [(l.transcription, l.logits, l.characters) for l in a.lines_iterator()]
    ctx.check(all(x[0] == y[0] and x[1] is y[1] and x[2] is y[2] for x, y in zip(before, after)), "self_merge_changes_result", desc)
    ctx.check(snapshot(a) == geo_before, "geometry_or_ids_altered", desc)
    if tie:
        ctx.event("exact_tie")
    if nonfirst:
        ctx.event("winner_not_first_engine")
    if any(x["winner"] is None for x in expect):
        ctx.event("no_positive_engine")
    if n_eng >= 2 and (nonfirst or tie):
        ctx.nontrivial(repr(case))


# ---------------------------------------------------------------- the script around merge_layouts
def strat_script():
    from hypothesis import strategies as st
    names = st.permutations(["zeta", "alpha", "Mid", "beta2", "10"])
    return st.tuples(strat(), names)


def body_script(ctx, case):
    """user_scripts/merge_ocr_results.py main(): engine folders are given on the command line; the first one given is the
    base (ids, geometry, winner on ties). Differential against merge_layouts applied to the same files in that order."""
    import contextlib
    import io
    import shutil
    import sys
    import tempfile
    from pero_ocr.core.layout import PageLayout
    spec, names = case
    spec = dict(spec, ids="page")
    M = merge_module()
    layouts = build_layouts(spec)
    for pl in layouts:
        for line in pl.lines_iterator():
            if line.transcription is None:
                line.transcription = ""
            del line.verif_pos
    d = tempfile.mkdtemp(prefix="verif-c19-")
    try:
        dirs = []
        for pl, nm in zip(layouts, names):
            p = os.path.join(d, nm)
            os.makedirs(p)
            pl.to_pagexml(os.path.join(p, "page.xml"))
            pl.save_logits(os.path.join(p, "page.logits"))
            dirs.append(p)

        def load(p):
            pl = PageLayout(file=os.path.join(p, "page.xml"))
            pl.load_logits(os.path.join(p, "page.logits"))
            return pl
        with contextlib.redirect_stdout(io.StringIO()):
            expect_layouts = [load(p) for p in dirs]
            M.merge_layouts(expect_layouts)
        want = [(l.id, l.transcription, list(l.characters), np.asarray(l.baseline).tolist()) for l in expect_layouts[0].lines_iterator()]
        out = os.path.join(d, "out")
        old = sys.argv
        sys.argv = ["merge_ocr_results.py", "--output-path", out] + dirs
        try:
            with contextlib.redirect_stdout(io.StringIO()), contextlib.redirect_stderr(io.StringIO()):
                ctx.must("merge_script_raises", M.main)
        finally:
            sys.argv = old
        got_pl = load(out)
        got = [(l.id, l.transcription, list(l.characters), np.asarray(l.baseline).tolist()) for l in got_pl.lines_iterator()]
        ctx.check(got == want, "script_result_differs_from_merge_in_command_line_order",
                  lambda: "folders %r: script %r, merge_layouts in that order %r" % (list(names[:len(dirs)]), got, want))
        if len(dirs) >= 2 and list(names[:len(dirs)]) != sorted(names[:len(dirs)]):
            ctx.event("folders_not_in_sorted_order")
            ctx.nontrivial(("script", repr(case)))
    finally:
        shutil.rmtree(d, ignore_errors=True)


UNITS = [
    Unit("merge", "given", body=body, strategy=strat, quick=800, thorough=10000),
    Unit("script", "given", body=body_script, strategy=strat_script, quick=120, thorough=1500),
]
