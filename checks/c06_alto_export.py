"""C06 - ALTO export never loses, reorders or invents text and never fails."""
import copy
import os
import re

import numpy as np

from vlib.core import Unit

PROPERTY = "C06"
LEVEL = "exploration"
RULE = ("Pages of 0-3 regions x 0-3 lines (integer region polygons inside the page, left-to-right baselines, positive "
        "heights); character tables of Latin letters, digits, blank, optionally Arabic letters; transcriptions = tokens "
        "inside and outside the table joined by separators from {' ', '  ', NBSP, TAB, U+2009, U+3000} with optional "
        "leading/trailing separators, also None/''/blank-only; posteriors peaky-consistent, diffuse, too short to align, "
        "absent, with unknown or partial frame window; Arabic lines mixing Arabic/Latin words, numbers, delimiters; "
        "min_line_confidence in {0, 0.3, 0.7, 1.1}. Oracle: the ALTO string is read back with an lxml walker written for "
        "the check; expected words = transcription.split() (each converted to logical order on Arabic lines); integer "
        "geometry, WC in [0,1], print space = bounding box of the blocks, margins tile the page, dropped lines only "
        "below the threshold, from_altoxml_string returns the same words. Separate unit: the order conversion only "
        "permutes characters and is an involution. Non-trivial: >= 1 exported line with >= 2 words and one of: "
        "non-U+0020 white space, repeated/leading/trailing blanks, out-of-table character, failed alignment, Arabic word.")
ASSUMPTIONS = ["'whitespace-separated words' is Python's str.split() definition (what the statement and the fallback branch use)",
               "region polygons have integer coordinates inside the page, so the print-space clause is exact"]

SEPS = [" ", " ", " ", "  ", " ", "\t", " ", "　", " \t "]
LATIN = list("abcdefgh0123")
ARABIC = list("ابتثجحدرسعفقكلمنهوي")


def strat_page():
    from hypothesis import strategies as st
    from vlib.pages import line_geometry

    @st.composite
    def page(draw):
        arabic = draw(st.integers(0, 3)) == 0
        table = LATIN[:draw(st.integers(5, len(LATIN)))] + [" "] + (ARABIC[:draw(st.integers(4, len(ARABIC)))] if arabic else [])
        tok_in = st.text(alphabet=[c for c in table if c != " "], min_size=1, max_size=5)
        tok_out = st.text(alphabet="XYZ?!é", min_size=1, max_size=3)
        # format characters inside words (soft hyphen, zero-width joiners, direction marks, private use) and text
        # that looks like markup (entity-like words are ordinary text to an OCR system)
        tok_special = st.sampled_from(["a\u200bb", "a\u00adb", "\u200cx", "x\u200d", "q\u200fq", "\ue000", "\u2060w", "&lt", "&amp;lt;", "&#65;", "&copy", "<b>", "a&b"])
        tok_ar = st.text(alphabet=ARABIC, min_size=1, max_size=5) if arabic else tok_in
        tok_num = st.text(alphabet="0123", min_size=1, max_size=3)
        tok_delim = st.sampled_from([",", ".", "-", ":", '"', "،"])

        tok_lat = st.text(alphabet=[c for c in table if c != " " and c not in ARABIC], min_size=1, max_size=5)
        # Latin words with punctuation glued to an edge ("Hello," / "(end.")
        tok_punct = st.tuples(st.sampled_from(["", ",", '"', "-"]), tok_lat, st.sampled_from([",", ".", ":", '"', ""])).map("".join)

        def text_strategy():
            if arabic:
                script = draw(st.sampled_from(["mixed", "mixed", "latin_only", "arabic_only"]))
                token = {"mixed": st.one_of(tok_in, tok_ar, tok_out, tok_num, tok_delim, tok_punct, tok_special),
                         "latin_only": st.one_of(tok_lat, tok_punct, tok_num),
                         "arabic_only": st.one_of(tok_ar, tok_ar, tok_delim)}[script]
            else:
                token = st.one_of(tok_in, tok_in, tok_in, tok_out, tok_num, tok_punct, tok_special)
            @st.composite
            def text(draw2):
                kind = draw2(st.sampled_from(["normal", "normal", "normal", "none", "empty", "blank"]))
                if kind == "none":
                    return None
                if kind == "empty":
                    return ""
                if kind == "blank":
                    return draw2(st.sampled_from([" ", "  ", "\t", " "]))
                toks = draw2(st.lists(token, min_size=1, max_size=5)) if draw2(st.integers(0, 11)) else draw2(st.lists(token, min_size=15, max_size=40))
                s = draw2(st.sampled_from(["", "", " ", "  ", "\t"]))
                for i, t in enumerate(toks):
                    s += t
                    if i < len(toks) - 1:
                        s += draw2(st.sampled_from(SEPS))
                s += draw2(st.sampled_from(["", "", " ", "  ", " "]))
                return s
            return text()

        regions = []
        y = 40
        for r in range(draw(st.integers(0, 3))):
            lines = []
            x0 = draw(st.integers(10, 120))
            for l in range(draw(st.integers(0, 3))):
                geom = draw(line_geometry(x0=x0, y=y + 45))
                y += 80
                lines.append(dict(geom=geom, text=draw(text_strategy()), seed=draw(st.integers(0, 2 ** 31 - 1)),
                                  logits=draw(st.sampled_from(["peaky", "peaky", "peaky", "onehot", "diffuse", "short", "absent", "nochars", "per_char"])),
                                  window=draw(st.sampled_from(["exact", "exact", "none", "whole"])),
                                  prev_conf=draw(st.sampled_from([None, None, 0.9, 0.1]))))
            y += 30
            regions.append(dict(lines=lines, pad=(draw(st.integers(0, 30)), draw(st.integers(0, 30)))))
        return dict(table=table, regions=regions, thr=draw(st.sampled_from([0, 0, 0.3, 0.7, 1.0, 1.1])),
                    page=(y + 200 + draw(st.integers(0, 300)), 1400 + draw(st.integers(0, 600))))
    return page()


def build(case):
    from pero_ocr.core.layout import PageLayout, RegionLayout, TextLine
    from vlib.pages import build_line, logits_for_path, sparsify
    chars = case["table"] + ["​"]
    pl = PageLayout(id="page_1.jpg", page_size=case["page"])
    n = 0
    yb = 10
    for ri, r in enumerate(case["regions"]):
        lines = []
        for l in r["lines"]:
            text = l["text"]
            mode = l["logits"]
            line = build_line("l%02d" % n, l["geom"], text if mode != "short" else (text or "")[:1], chars, l["seed"],
                              confuse=0.3 if mode not in ("diffuse", "onehot") else 0.0,
                              peak=(40.0, 45.0) if mode == "onehot" else (6.0, 14.0))
            line.transcription = text
            if mode == "diffuse":
                rs = np.random.RandomState(l["seed"])
                T = max(2, 3 * len(text or "") + 4)
                line.logits = sparsify(rs.uniform(-2, 2, size=(T, len(chars))).astype(np.float32))
                line.logit_coords = [0, T]
            elif mode == "short":
                need = len(text or "")
                if need > 2:
                    line.logits = line.logits[:max(1, need - 2)]
                    line.logit_coords = [0, line.logits.shape[0]]
            elif mode == "per_char" and text:
                # a recogniser that emits one output row per character (transformer decoder), with close runners-up
                rs = np.random.RandomState(l["seed"])
                cmap = {c: i for i, c in enumerate(chars[:-1])}
                labels = [cmap.get(ch, 0) for ch in text]
                dense = logits_for_path(labels, len(chars), rs, confuse=0.7, peak=(1.0, 6.0), overshoot=0.5)
                line.logits = sparsify(dense)
                line.logit_coords = [0, len(labels)]
            elif mode == "absent":
                line.logits = None
                line.logit_coords = None
            elif mode == "nochars":
                line.characters = None
            if line.logits is not None and mode not in ("short", "diffuse"):
                if l["window"] == "none":
                    line.logit_coords = [None, None]
                elif l["window"] == "whole":
                    line.logit_coords = [0, line.logits.shape[0]]
            line.transcription_confidence = l["prev_conf"]
            if l["seed"] % 3 == 0:
                # as loaded from PAGE XML: integer arrays; heights as an array (layout engine) instead of a list
                line.baseline = np.round(line.baseline).astype(np.int64)
                line.polygon = np.round(line.polygon).astype(np.int64)
                line.heights = np.asarray(line.heights, dtype=np.float64)
            elif l["seed"] % 3 == 1:
                line.heights = tuple(line.heights)
            if l["seed"] % 11 == 0:
                # a detected line that is only one or two pixels long (still has baseline, polygon and heights)
                b0 = np.asarray(line.baseline, dtype=np.float64)[0]
                line.baseline = np.asarray([b0, b0 + [1.0 + (l["seed"] % 2), 0.0]])
                line.polygon = np.asarray([b0 + [0, -8], b0 + [2, -8], b0 + [2, 3], b0 + [0, 3]])
            lines.append(line)
            n += 1
        if lines:
            allp = np.concatenate([x.polygon for x in lines], axis=0)
            x0, y0 = np.floor(allp.min(axis=0)) - r["pad"][0]
            x1, y1 = np.ceil(allp.max(axis=0)) + r["pad"][1]
            yb = int(y1) + 5
        else:
            x0, y0, x1, y1 = 20 + ri * 7, yb, 220 + ri * 13, yb + 30
            yb += 40
        x0, y0 = max(0, int(x0)), max(0, int(y0))
        x1, y1 = min(case["page"][1], int(x1)), min(case["page"][0], int(y1))
        reg = RegionLayout("r%d" % ri, np.asarray([[x0, y0], [x1, y0], [x1, y1], [x0, y1]], dtype=np.float64))
        reg.lines = lines
        pl.regions.append(reg)
    return pl


INT = re.compile(r"^-?\d+$")


def walk(xml):
    import lxml.etree as ET
    root = ET.fromstring(xml.encode("utf-8"))

    def name(e):
        return e.tag.split("}")[-1] if isinstance(e.tag, str) else ""
    page = [e for e in root.iter() if name(e) == "Page"][0]
    out = dict(page=dict(page.attrib), margins={}, blocks=[], geom_attrs=[])
    for e in page:
        if name(e) in ("TopMargin", "LeftMargin", "RightMargin", "BottomMargin"):
            out["margins"][name(e)] = dict(e.attrib)
        if name(e) == "PrintSpace":
            out["ps"] = dict(e.attrib)
            for b in e:
                if name(b) != "TextBlock":
                    continue
                blk = dict(attrib=dict(b.attrib), lines=[])
                for tl in b:
                    if name(tl) != "TextLine":
                        continue
                    words = []
                    for s in tl:
                        if name(s) == "String":
                            words.append(dict(s.attrib))
                        out["geom_attrs"].append((name(s), dict(s.attrib)))
                    blk["lines"].append(dict(attrib=dict(tl.attrib), words=words))
                    out["geom_attrs"].append(("TextLine", dict(tl.attrib)))
                out["blocks"].append(blk)
                out["geom_attrs"].append(("TextBlock", dict(b.attrib)))
    for k, v in out["margins"].items():
        out["geom_attrs"].append((k, v))
    out["geom_attrs"].append(("PrintSpace", out["ps"]))
    return out


_AR_WORD = re.compile("^[\u0600-\u06ff\u0750-\u077f\ufb50-\ufdff\ufe70-\ufeff]+$")


def own_is_arabic_line(text):
    """a line is Arabic-script if one of its words consists of characters of the Arabic Unicode blocks only"""
    return any(_AR_WORD.match(w) for w in text.split())


def body_page(ctx, case):
    from pero_ocr.core.layout import PageLayout
    from pero_ocr.core.arabic_helper import ArabicHelper
    import logging
    logging.getLogger("pero_ocr.core.layout").setLevel(logging.CRITICAL)
    ah = ArabicHelper()
    pl = build(case)
    thr = case["thr"]
    desc = lambda: "case=%r" % (case,)
    work = copy.deepcopy(pl)
    xml = ctx.must("alto_export_raises", work.to_altoxml_string, None, None, thr)
    doc = walk(xml)
    # a second export of the same (already exported) layout is the same document
    xml_again = ctx.must("alto_export_raises", work.to_altoxml_string, None, None, thr)
    strip = lambda x: re.sub(r"<processingDateTime>[^<]*</processingDateTime>", "", x)
    ctx.check(strip(xml) == strip(xml_again), "second_alto_export_differs", lambda: "case=%r" % (case,))
    # ---- expected lines --------------------------------------------------
    nt = False
    exp_blocks = []
    for reg, wreg in zip(pl.regions, work.regions):
        exp = []
        for line, wline in zip(reg.lines, wreg.lines):
            t = line.transcription
            if not t or t.strip() == "":
                continue
            words = t.split()
            arab = own_is_arabic_line(t)       # not the library's own predicate
            ctx.check(ah.is_arabic_line(t) == arab, "arabic_line_predicate", lambda: "is_arabic_line(%r) = %r" % (t, not arab))
            if arab:
                words = [ah.label_form_to_string(w) for w in words]
            conf = wline.transcription_confidence
            ctx.check(conf is None or (0.0 <= float(conf) <= 1.0 + 1e-9), "line_confidence_out_of_range_after_export",
                      lambda: "line %s: %r; " % (line.id, conf) + desc())
            dropped_ok = conf is not None and conf < thr
            exp.append(dict(id=line.id, words=words, may_drop=dropped_ok, must_keep=not dropped_ok, text=t, arab=arab,
                            mode=[l for r in case["regions"] for l in r["lines"]][int(line.id[1:])]["logits"]))
        exp_blocks.append(exp)
    ctx.check(len(doc["blocks"]) == len(pl.regions), "block_count", lambda: "%d blocks for %d regions; " % (len(doc["blocks"]), len(pl.regions)) + desc())
    got_lines_all = []
    for bi, (blk, exp) in enumerate(zip(doc["blocks"], exp_blocks)):
        got = [[w.get("CONTENT") for w in l["words"]] for l in blk["lines"]]
        got_lines_all += got
        want = [e["words"] for e in exp if e["must_keep"]]
        ctx.check(got == want, "alto_words_differ_from_transcription_words",
                  lambda: "block %d: exported %r expected %r (transcriptions %r); " % (bi, got, want, [e["text"] for e in exp]) + desc())
        for e in exp:
            if e["must_keep"] and len(e["words"]) >= 2:
                t = e["text"]
                if (re.search(r"[^\S ]", t) or "  " in t or t != t.strip() or e["arab"] or e["mode"] in ("short", "absent", "nochars", "diffuse")
                        or any(ch not in case["table"] for ch in t if not ch.isspace())):
                    nt = True
            ctx.event("line:" + e["mode"])
            if e["arab"]:
                ctx.event("arabic_line")
            if not e["must_keep"]:
                ctx.event("line_dropped_by_threshold")
            elif thr > 0:
                ctx.event("line_kept_at_positive_threshold")
    # ---- geometry attributes ----------------------------------------------
    for tag, attrs in doc["geom_attrs"]:
        for k in ("HEIGHT", "WIDTH", "VPOS", "HPOS", "BASELINE"):
            if k in attrs:
                ctx.check(bool(INT.match(attrs[k])), "geometry_attribute_not_integer", lambda: "%s %s=%r; " % (tag, k, attrs[k]) + desc())
        if "WC" in attrs:
            try:
                wc = float(attrs["WC"])
            except ValueError:
                wc = None
            ctx.check(wc is not None and 0.0 <= wc <= 1.0, "word_confidence_out_of_range", lambda: "WC=%r; " % attrs["WC"] + desc())
    # ---- print space and margins -------------------------------------------
    ph, pw = case["page"]
    ps = {k: int(v) for k, v in doc["ps"].items() if k in ("HEIGHT", "WIDTH", "VPOS", "HPOS")}
    if pl.regions:
        xs0 = min(int(r.polygon[:, 0].min()) for r in pl.regions)
        ys0 = min(int(r.polygon[:, 1].min()) for r in pl.regions)
        xs1 = max(int(r.polygon[:, 0].max()) for r in pl.regions)
        ys1 = max(int(r.polygon[:, 1].max()) for r in pl.regions)
        want_ps = dict(HPOS=xs0, VPOS=ys0, WIDTH=xs1 - xs0, HEIGHT=ys1 - ys0)
        ctx.check(ps == want_ps, "print_space_not_bounding_box_of_blocks", lambda: "print space %r expected %r on page %r; " % (ps, want_ps, case["page"]) + desc())
        mg = {k: {a: int(b) for a, b in v.items()} for k, v in doc["margins"].items()}
        ok = (mg["TopMargin"]["HEIGHT"] == ps["VPOS"] and mg["LeftMargin"]["WIDTH"] == ps["HPOS"]
              and mg["RightMargin"]["HPOS"] == ps["HPOS"] + ps["WIDTH"] and mg["RightMargin"]["WIDTH"] == pw - (ps["HPOS"] + ps["WIDTH"])
              and mg["BottomMargin"]["VPOS"] == ps["VPOS"] + ps["HEIGHT"] and mg["BottomMargin"]["HEIGHT"] == ph - (ps["VPOS"] + ps["HEIGHT"])
              and mg["TopMargin"]["WIDTH"] == pw and mg["BottomMargin"]["WIDTH"] == pw and mg["LeftMargin"]["HEIGHT"] == ph and mg["RightMargin"]["HEIGHT"] == ph)
        ctx.check(ok, "margins_do_not_tile_the_page", lambda: "margins %r print space %r page %r; " % (mg, ps, case["page"]) + desc())
    # ---- re-import ---------------------------------------------------------
    back = PageLayout()
    ctx.must("alto_import_raises", back.from_altoxml_string, xml)
    back_words = [l.transcription.split() for l in back.lines_iterator()]
    ctx.check(back_words == got_lines_all, "reimport_words_differ", lambda: "re-imported %r exported %r; " % (back_words, got_lines_all) + desc())
    # ---- which lines pass the requested confidence is decided from the logits, not from a confidence the line happened to carry
    # before (PAGE XML conf values, an earlier stage): the same page without stored confidences exports the same lines
    bare = copy.deepcopy(pl)
    for l in bare.lines_iterator():
        l.transcription_confidence = None
    doc_bare = walk(ctx.must("alto_export_raises", bare.to_altoxml_string, None, None, thr))
    got_bare = [[[w.get("CONTENT") for w in l["words"]] for l in b["lines"]] for b in doc_bare["blocks"]]
    got_with = [[[w.get("CONTENT") for w in l["words"]] for l in b["lines"]] for b in doc["blocks"]]
    ctx.check(got_bare == got_with, "exported_lines_depend_on_a_stored_confidence",
              lambda: "threshold %r: with the stored confidences %r, without %r; " % (thr, got_with, got_bare) + desc())
    # ---- the transcriptions are corrected on the exported layout (same line objects, same logits) and exported again ----
    tab_chars = [ch for ch in case["table"] if not ch.isspace()] or ["a"]
    want2 = []
    for reg in work.regions:
        blk = []
        for li, line in enumerate(reg.lines):
            t = line.transcription
            if t and t.strip():
                ws = t.split()
                edit = (li + len(ws)) % 4
                if edit == 0:
                    ws = ws + [tab_chars[0] * 2, tab_chars[-1]]
                elif edit == 1:
                    ws = ws[:-1]
                elif edit == 2:
                    ws = ws[::-1]
                else:
                    ws = [w + tab_chars[li % len(tab_chars)] for w in ws]
                line.transcription = " ".join(ws)
            t2 = line.transcription
            if t2 and t2.strip():
                blk.append([ah.label_form_to_string(w) for w in t2.split()] if own_is_arabic_line(t2) else t2.split())
        want2.append(blk)
    xml2 = ctx.must("alto_export_raises", work.to_altoxml_string, None, None, 0)
    got2 = [[[w.get("CONTENT") for w in l["words"]] for l in b["lines"]] for b in walk(xml2)["blocks"]]
    ctx.check(got2 == want2, "alto_words_differ_from_transcription_words",
              lambda: "export after the transcriptions were corrected on the exported layout: exported %r expected %r; " % (got2, want2) + desc())
    if any(b for b in want2):
        ctx.event("re_export_after_correction")
    # the file variant (to_altoxml, threshold 0, optionally with the caller's page uuid and processing element) writes the same text
    import tempfile
    import lxml.etree as LET
    fd, tmp_path = tempfile.mkstemp(suffix=".xml", prefix="verif-alto-")
    os.close(fd)
    try:
        kw = {}
        if case["regions"] and len(case["regions"]) % 2 == 0:
            kw = dict(page_uuid="0f1e2d3c", ocr_processing_element=LET.Element("OCRProcessing", ID="IdOcr"))
        ctx.must("alto_export_raises", work.to_altoxml, tmp_path, **kw)
        with open(tmp_path, encoding="utf-8") as f:
            xml3 = f.read()
    finally:
        os.unlink(tmp_path)
    got3 = [[[w.get("CONTENT") for w in l["words"]] for l in b["lines"]] for b in walk(xml3)["blocks"]]
    ctx.check(got3 == want2, "alto_words_differ_from_transcription_words",
              lambda: "file variant (to_altoxml): exported %r expected %r; " % (got3, want2) + desc())
    # export through the file API uses threshold 0
    if nt:
        ctx.nontrivial(repr(case))


# ---------------------------------------------------------------- Arabic order conversion
def strat_order():
    from hypothesis import strategies as st
    ar = st.text(alphabet=ARABIC + ["ً", "ّ"], min_size=1, max_size=5)
    la = st.text(alphabet="abcXY", min_size=1, max_size=4)
    num = st.text(alphabet="0123456789", min_size=1, max_size=4)
    de = st.sampled_from([" ", ",", "-", ".", '"', ":", "،", "»", "  ", ", "])
    tok = st.one_of(ar, ar, la, num, de, de)
    return st.lists(tok, min_size=0, max_size=9).map("".join)


def body_order(ctx, s):
    from pero_ocr.core.arabic_helper import ArabicHelper
    ah = ArabicHelper()
    for name in ("string_to_label_form", "label_form_to_string"):
        f = getattr(ah, name)
        r = ctx.must("order_conversion_raises", f, s)
        ctx.check(sorted(r) == sorted(s), "order_conversion_changes_characters", lambda: "%s(%r) = %r" % (name, s, r))
        rr = ctx.must("order_conversion_raises", f, r)
        ctx.check(rr == s, "order_conversion_not_involution", lambda: "%s twice: %r -> %r -> %r" % (name, s, r, rr))
    if len(s) >= 2 and all(c in ARABIC for c in s):
        # a word of plain Arabic letters: label (visual) order and logical order are mirror images
        for name in ("string_to_label_form", "label_form_to_string"):
            r = getattr(ah, name)(s)
            ctx.check(r == s[::-1], "arabic_word_not_mirrored", lambda: "%s(%r) = %r" % (name, s, r))
        ctx.event("plain_arabic_word")
    has_ar = any(c in ARABIC for c in s)
    has_other = any(c.isascii() and c.isalnum() for c in s)
    if has_ar and has_other and len(s) >= 4:
        ctx.nontrivial(("order", s))
    if s and s[-1] in ' ,-."::':
        ctx.event("trailing_delimiter")
    if s and s[0] in ' ,-."::':
        ctx.event("leading_delimiter")


UNITS = [
    Unit("pages", "given", body=body_page, strategy=strat_page, quick=1200, thorough=12000, shards_quick=8),
    Unit("order_conversion", "given", body=body_order, strategy=strat_order, quick=3000, thorough=100000),
]
