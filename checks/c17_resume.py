"""C17 - resuming an interrupted batch completes every requested output."""
import atexit
import itertools
import os
import shutil
import tempfile

from vlib.core import Unit
from vlib import folder as F

PROPERTY = "C17"
LEVEL = "fault_enumeration"
RULE = ("A real parse_folder.main() is run in-process on generated jobs (2-3 pages with PAGE XML inputs, page ids with "
        "dots and output-extension substrings such as 'a.xml.b', 'p.jpg.1', config = line cropper + TorchScript stub OCR) "
        "for non-empty subsets of the five output kinds. Fault injection: the five write sites are wrapped with a counter "
        "that raises a private BaseException before write k (what a kill between two writes leaves on disk). Every k "
        "from 0 to the number of writes is enumerated per (job, subset), followed by '-s' resumes; sequences of up to "
        "three successive crashes are enumerated (thorough) or sampled (quick). Oracle: the output folders of an "
        "uninterrupted run (XML without timestamps, logits as unpickled matrices, images byte-equal); the ids handed to "
        "Computator.__call__ during a resume must be exactly the pages with a missing requested output; a resume "
        "returns normally. Non-trivial: a crash strictly inside a page (after its first, before its last write); "
        "distinct by (ids, subset, crash positions).")
ASSUMPTIONS = ["kills inside a write (torn files) are outside the statement and are not injected",
               "pages are processed sequentially (--process-count 1) so that 'between two consecutive writes' is well defined"]

ID_SETS = [("a", "a.xml.b", "scan.v2"), ("p", "p.jpg.1", ".cover"), ("x.logits.y", "x", "a 1"), ("doc-1", "doc-1.v2", "b.jpg"),
           tuple("p%d" % i for i in range(1, 12))]
LINES = (2, 1, 3, 1, 1, 2, 1, 1, 1, 2, 1)
SUBSETS = [tuple(k for k, bit in zip(F.OUTPUT_KINDS, bits) if bit) for bits in itertools.product((0, 1), repeat=5) if any(bits)]
QUICK_SUBSETS = [F.OUTPUT_KINDS, ("xml", "alto"), ("xml", "render", "logits"), ("logits", "lines"), ("alto",)]
CONSULTED = ("xml", "logits", "render", "alto")

_ROOT = None
_JOBS = {}
_REFS = {}


def root():
    global _ROOT
    if _ROOT is None:
        _ROOT = tempfile.mkdtemp(prefix="verif-c17-")
        atexit.register(shutil.rmtree, _ROOT, True)
    return _ROOT


def get_job(ids):
    if ids not in _JOBS:
        d = os.path.join(root(), "job%d" % len(_JOBS))
        os.makedirs(d)
        _JOBS[ids] = F.make_job(d, list(ids), list(LINES[:len(ids)]), list(range(1, len(ids) + 1)))
    return _JOBS[ids]


def no_xml_for(ids, subset):
    """some jobs start from the images alone (no input PAGE XML: pages without a layout, as at the start of a pipeline)"""
    return "lines" not in subset and (len(subset) + len(ids)) % 3 == 0


def get_ref(ctx, ids, subset):
    key = (ids, subset)
    if key not in _REFS:
        job = get_job(ids)
        outs = F.out_dirs(job["root"], "ref-" + "-".join(subset), subset)
        status, inj = F.run_main(F.argv_for(job, outs, no_xml=no_xml_for(ids, subset)))
        ctx.check(status == "ok", "uninterrupted_run_fails", lambda: "%s; stdout=%s" % (status, inj.stdout[-600:]))
        ctx.check("ERROR" not in inj.stdout, "uninterrupted_run_reports_errors", lambda: inj.stdout[-800:])
        # every requested output of every input page is there (the comparison with resumed runs would be vacuous otherwise)
        missing = [(k, fn) for pid, files in expected_files(ids, subset).items() for k, fn in files if not os.path.exists(os.path.join(outs[k], fn))]
        ctx.check(not missing, "requested_output_missing_after_uninterrupted_run", lambda: "%r for ids=%r outputs=%r" % (missing, ids, subset))
        _REFS[key] = (F.snapshot(outs), list(inj.writes), list(inj.processed))
    return _REFS[key]


def expected_files(ids, subset):
    exp = {}
    for pid, n in zip(ids, LINES):
        f = []
        for k in subset:
            if k == "xml":
                f.append(("xml", pid + ".xml"))
            elif k == "render":
                f.append(("render", pid + ".jpg"))
            elif k == "logits":
                f.append(("logits", pid + ".logits"))
            elif k == "alto":
                f.append(("alto", pid + ".xml"))
            else:
                f += [("lines", "%s-r1-l%03d.jpg" % (pid, i + 1)) for i in range(n)]
        exp[pid] = f
    return exp


def incomplete_pages(ids, subset, outs):
    exp = expected_files(ids, subset)
    return [pid for pid in ids if any(not os.path.exists(os.path.join(outs[k], fn)) for k, fn in exp[pid])]


_COUNTER = [0]


def own_snapshot(outs):
    """snapshot without the files of the earlier batch the harness put there"""
    snap = F.snapshot(outs)
    return {k: {fn: v for fn, v in files.items() if not fn.startswith("zz-old")} for k, files in snap.items()}


def run_case(ctx, ids, subset, crashes):
    """crashes: list of write indices (relative to each run) at which successive runs are killed."""
    ids, subset = tuple(ids), tuple(subset)
    ref_snap, ref_writes, _ = get_ref(ctx, ids, subset)
    W = len(ref_writes)
    job = get_job(ids)
    _COUNTER[0] += 1
    name = ("run%d" if _COUNTER[0] % 2 else "run[%d] a*b?")  % _COUNTER[0]      # output folders are arbitrary paths
    outs = F.out_dirs(job["root"], name, subset)
    smx = (len(subset) + sum(crashes)) % 2 == 1      # every other case also passes --skipp-missing-xml (all XML inputs exist)
    info_level = _COUNTER[0] % 4 == 1                # [PARSE_FOLDER] LOGGING_LEVEL = INFO
    if info_level:
        job = dict(job, config=job["config_info"])
    foreign = _COUNTER[0] % 3 == 0                   # the output folders already hold the complete outputs of an earlier batch
    no_xml = no_xml_for(ids, subset)
    in_cfg = _COUNTER[0] % 5 == 2                    # all paths in the configuration file instead of on the command line
    desc = lambda: "ids=%r outputs=%r crash positions=%r skipp-missing-xml=%r logging INFO=%r outputs of other pages present=%r (uninterrupted run makes %d writes: %r)" % (
        ids, subset, crashes, smx, info_level, foreign, W, ref_writes)
    try:
        if foreign:
            import pickle
            ext = {"xml": ".xml", "render": ".jpg", "logits": ".logits", "alto": ".xml"}
            for k in subset:
                os.makedirs(outs[k], exist_ok=True)
                for j in range(len(ids) + 1):
                    fn = ("zz-old%d-r1-l001.jpg" % j) if k == "lines" else ("zz-old%d%s" % (j, ext[k]))
                    with open(os.path.join(outs[k], fn), "wb") as f:
                        f.write(pickle.dumps({}) if k == "logits" else b"<old/>")
            ctx.event("outputs_of_an_earlier_batch_present")
        if info_level:
            ctx.event("logging_level_info")
        if in_cfg:
            ctx.event("paths_in_the_configuration_file")
        if no_xml:
            ctx.event("job_without_input_page_xml")
        inside = False
        first = True
        history = []
        for c in crashes:
            before = incomplete_pages(ids, subset, outs) if not first else list(ids)
            status, inj = F.run_main(F.argv_for(job, outs, skip=not first, skip_missing_xml=smx, paths_in_config=in_cfg, no_xml=no_xml), F.Injector(crash_at=c))
            history.append((c, status, list(inj.writes)))
            ctx.check(status in ("ok", "crash"), "run_fails", lambda: "status %s; history %r; " % (status, history) + desc())
            if not first:
                check_processed(ctx, ids, subset, before, inj, status, desc, history)
            if status == "crash":
                # was the kill strictly inside a page?
                done = [w for w in inj.writes]
                exp = expected_files(ids, subset)
                for pid in ids:
                    mine = [(k, fn) for k, fn in exp[pid]]
                    n_done = sum(1 for k, fn in mine if os.path.exists(os.path.join(outs[k], fn)))
                    if 0 < n_done < len(mine):
                        inside = True
            first = False
        # final resume(s): the batch must complete
        before = incomplete_pages(ids, subset, outs) if not first else list(ids)
        status, inj = F.run_main(F.argv_for(job, outs, skip=not first, skip_missing_xml=smx, paths_in_config=in_cfg, no_xml=no_xml))
        history.append((None, status, list(inj.writes)))
        ctx.check(status == "ok", "resume_does_not_exit_cleanly", lambda: "status %s; history %r; stdout tail %r; " % (status, history, inj.stdout[-300:]) + desc())
        if not first:
            check_processed(ctx, ids, subset, before, inj, status, desc, history)
        diff = F.diff_snapshots(ref_snap, own_snapshot(outs))
        ctx.check(not diff, "outputs_differ_after_resume", lambda: "%r; history %r; " % (diff, history) + desc())
        # one more resume: nothing left to do, exits cleanly, processes nothing
        status, inj = F.run_main(F.argv_for(job, outs, skip=True, skip_missing_xml=smx, paths_in_config=in_cfg, no_xml=no_xml))
        ctx.check(status == "ok", "resume_with_nothing_to_do_fails", lambda: "status %s; " % status + desc())
        ctx.check(not inj.processed, "complete_page_processed_again", lambda: "a resume over a complete folder processed %r; " % (inj.processed,) + desc())
        ctx.check(not F.diff_snapshots(ref_snap, own_snapshot(outs)), "outputs_changed_by_idle_resume", desc)
        if inside:
            ctx.event("crash_inside_a_page")
            ctx.nontrivial((ids, subset, tuple(crashes)))
        ctx.event("subset_size:%d" % len(subset))
    finally:
        shutil.rmtree(os.path.join(job["root"], name), ignore_errors=True)


def check_processed(ctx, ids, subset, before, inj, status, desc, history):
    got = list(inj.processed)
    complete = [p for p in ids if p not in before]
    again = [p for p in got if p in complete]
    ctx.check(not again, "complete_page_processed_again", lambda: "pages %r had all requested outputs and were processed again; history %r; " % (again, history) + desc())
    if status == "ok":
        missing = [p for p in before if p not in got]
        ctx.check(not missing, "incomplete_page_not_processed", lambda: "pages %r lack outputs but were skipped; history %r; " % (missing, history) + desc())


# ---------------------------------------------------------------- known finding: line crops have no completion record
def known_lines(kind, case, detail):
    try:
        ids, subset, crashes = case
    except Exception:
        return False
    if "lines" not in subset:
        return False
    if kind == "complete_page_processed_again":
        # only crops requested: no consulted folder, so every page is processed on every resume
        return not any(k in CONSULTED for k in subset)
    if kind in ("outputs_differ_after_resume", "incomplete_page_not_processed"):
        # a page whose consulted outputs exist is regarded as done although its crops are missing
        if not any(k in CONSULTED for k in subset):
            return False
        if kind == "outputs_differ_after_resume":
            import re
            parts = re.findall(r"'(\w+)/[^']*? (missing in second|only in second|differs)'", detail.split("; history")[0])
            return bool(parts) and all(k == "lines" and what == "missing in second" for k, what in parts)
        return True
    return False


KNOWN = {"line-crops-no-completion-record": known_lines}


# ---------------------------------------------------------------- units
def single_cases(tier):
    out = []
    subsets = QUICK_SUBSETS if tier == "quick" else SUBSETS
    idsets = ID_SETS[:2] if tier == "quick" else ID_SETS[:4]
    # the eleven-page job (names interleave: p1, p10, p11, p2, ...): fewer subsets, every 2nd / 4th crash point
    big = ID_SETS[4]
    for sub in ([("xml", "alto")] if tier == "quick" else QUICK_SUBSETS):
        n_writes = sum((len([k for k in sub if k != "lines"]) + (n if "lines" in sub else 0)) for n in LINES[:len(big)])
        for k in range(0, n_writes + 1, 4 if tier == "quick" else 2):
            out.append((big, tuple(sub), (k,)))
    for ids in idsets:
        for sub in subsets:
            n_writes = sum((len([k for k in sub if k != "lines"]) + (n if "lines" in sub else 0)) for n in LINES[:len(ids)])
            for k in range(0, n_writes + 1):
                out.append((ids, tuple(sub), (k,)))
    return out


def multi_cases(tier):
    out = []
    if tier == "quick":
        return out
    for ids in ID_SETS[:2]:
        for sub in [F.OUTPUT_KINDS, ("xml", "alto"), ("xml", "render", "logits"), ("alto", "lines"), ("xml", "logits", "alto"), ("render",),
                    ("logits", "alto"), ("xml", "render", "logits", "alto")]:
            n_writes = sum((len([k for k in sub if k != "lines"]) + (n if "lines" in sub else 0)) for n in LINES[:len(ids)])
            for k1 in range(0, n_writes):
                for k2 in range(0, min(6, n_writes - k1 + 1)):
                    out.append((ids, tuple(sub), (k1, k2)))
                    if k2 in (1, 2) and k1 % 2 == 0:
                        for k3 in (0, 1, 3):
                            out.append((ids, tuple(sub), (k1, k2, k3)))
    return out


def body(ctx, case):
    ids, subset, crashes = case
    run_case(ctx, ids, subset, list(crashes))


def strat_multi():
    from hypothesis import strategies as st
    return st.tuples(st.sampled_from(ID_SETS), st.sampled_from(SUBSETS), st.lists(st.integers(0, 9), min_size=2, max_size=3).map(tuple))


# ---------------------------------------------------------------- resumed runs with several worker processes
_PR = {}


def parallel_cases(tier):
    done = (1, 3, 4) if tier == "quick" else (0, 1, 2, 3, 4)
    procs = (2, 4) if tier == "quick" else (2, 3, 4, 8)
    return [(d, p) for d in done for p in procs]


def body_parallel(ctx, case):
    """the real script in a subprocess with --process-count > 1: after an interrupted run only a few pages are left,
    often fewer than worker processes."""
    import subprocess
    import sys
    n_done, procs = case
    ids = ["q1", "q2", "q3", "q4"]
    kinds = ("xml", "render")

    def run_script(argv):
        script = os.path.join(os.environ.get("VERIF_REPO", "/repo"), "user_scripts", "parse_folder.py")
        p = subprocess.run([sys.executable, script] + argv[1:], stdout=subprocess.PIPE, stderr=subprocess.STDOUT, text=True, timeout=600)
        return p.returncode, p.stdout
    if "job" not in _PR:
        d = os.path.join(root(), "parallel")
        os.makedirs(d)
        job = F.make_job(d, ids, [2, 1, 1, 2], [11, 12, 13, 14])
        with open(job["config"], "w") as f:       # model-free stages only
            f.write("[PAGE_PARSER]\nRUN_LAYOUT_PARSER = no\nRUN_LINE_CROPPER = yes\nRUN_OCR = no\nRUN_DECODER = no\n\n"
                    "[LINE_CROPPER]\nINTERP = 2\nLINE_SCALE = 1\nLINE_HEIGHT = 16\n")
        ref = F.out_dirs(d, "ref", kinds)
        rc, out = run_script(F.argv_for(job, ref, process_count=1))
        ctx.check(rc == 0 and "ERROR" not in out, "reference_run_fails", lambda: "rc=%r %s" % (rc, out[-500:]))
        _PR.update(job=job, ref=ref, snap=F.snapshot(ref), n=0)
    job, ref = _PR["job"], _PR["ref"]
    _PR["n"] += 1
    outs = F.out_dirs(job["root"], "res%d" % _PR["n"], kinds)
    desc = lambda: "%d of 4 pages complete before the run, --process-count %d" % (n_done, procs)
    try:
        for k in kinds:
            os.makedirs(outs[k])
        for pid in ids[:n_done]:
            shutil.copy(os.path.join(ref["xml"], pid + ".xml"), outs["xml"])
            shutil.copy(os.path.join(ref["render"], pid + ".jpg"), outs["render"])
        rc, out = run_script(F.argv_for(job, outs, skip=True, process_count=procs))
        ctx.check(rc == 0 and "ERROR" not in out, "resumed_run_fails", lambda: "rc=%r %s; " % (rc, out[-500:]) + desc())
        for pid in ids[:n_done]:
            ctx.check("Processing %s\n" % pid not in out, "complete_page_processed_again", lambda: "page %s; " % pid + desc())
        diff = F.diff_snapshots(_PR["snap"], F.snapshot(outs))
        ctx.check(not diff, "resumed_parallel_run_differs_from_uninterrupted_run", lambda: "%r; " % (diff,) + desc())
        if 0 < 4 - n_done < procs:
            ctx.event("fewer_pages_left_than_processes")
        if n_done < 4:
            ctx.nontrivial(("parallel", case))
    finally:
        shutil.rmtree(os.path.dirname(outs["xml"]), ignore_errors=True)


UNITS = [
    Unit("single_crash", "enum", body=body, cases=single_cases, exhaustive=True, known=KNOWN, shards_quick=8),
    Unit("crash_sequences", "enum", body=body, cases=multi_cases, exhaustive=True, known=KNOWN, quick_enum=False),
    Unit("sampled_sequences", "given", body=body, strategy=strat_multi, quick=48, thorough=400, known=KNOWN, shards_quick=8, shrink_quick=False),
    Unit("parallel_resume", "enum", body=body_parallel, cases=parallel_cases, exhaustive=True, shards_quick=3, shards_thorough=5),
]
