"""C15 - stitching the parts of an over-long line never loses text."""
import itertools

import numpy as np

from vlib.core import Unit
from checks.c13_editdistance import wf

PROPERTY = "C15"
LEVEL = "exploration"
RULE = ("Lists of 1-5 part transcriptions (true overlapping windows of one text, windows with noise in the overlap, "
        "unrelated strings, empty parts anywhere) with logits of >= len rows carrying a (part,row) signature; the "
        "detected overlap is observed through find_best_overlap (itself checked against its arg-min-CER definition "
        "with the check's own edit distance) and the result is compared with a reference merge written from the "
        "statement (accumulated text loses ceil(o/2) or floor(o/2) characters, the next part the complement). "
        "Second unit drives BaseEngineLineOCR.process_lines in transformer mode with a pixel-code stub recogniser. "
        "Non-trivial: >= 2 non-empty parts with at least one detected overlap of 0 or one > 0 (both classes "
        "counted); distinct by the part list.")
ASSUMPTIONS = ["the detected overlap is whatever find_best_overlap reports for (text merged so far, next part)",
               "either rounding of o/2 is admitted for the two sides of a cut"]


# ---------------------------------------------------------------- oracle
def overlap_def(t1, t2):
    """set of admissible overlaps by definition: arg min CER over suffix/prefix lengths, 0 iff no CER < 1."""
    best = None
    cers = {}
    for i in range(1, min(len(t1), len(t2)) + 1):
        cers[i] = wf(list(t1[-i:]), list(t2[:i])) / i
    good = {i: c for i, c in cers.items() if c < 1}
    if not good:
        return {0}
    m = min(good.values())
    return {i for i, c in good.items() if abs(c - m) < 1e-12}


def reference_merges(ctx, parts, fbo):
    """all results the statement allows: list of (text, provenance[(part,row)], overlaps)."""
    cands = [(parts[0], [(0, r) for r in range(len(parts[0]))], [])]
    for pi, nxt in enumerate(parts[1:], start=1):
        new = []
        seen = set()
        for text, prov, ovs in cands:
            o = int(fbo(text, nxt))
            adm = overlap_def(text, nxt)
            ctx.check(o in adm, "overlap_not_argmin_cer", lambda: "text1=%r text2=%r detected %r, definition allows %r" % (text, nxt, o, sorted(adm)))
            for cut_acc in {(o + 1) // 2, o // 2}:
                cut_nxt = o - cut_acc
                t = text[:len(text) - cut_acc] + nxt[cut_nxt:]
                p = prov[:len(prov) - cut_acc] + [(pi, r) for r in range(cut_nxt, len(nxt))]
                if t not in seen or True:
                    seen.add(t)
                    new.append((t, p, ovs + [o]))
        # dedupe by (text, provenance)
        uniq = {}
        for t, p, ovs in new:
            uniq[(t, tuple(p))] = (t, p, ovs)
        cands = list(uniq.values())
    return cands


def make_logits(parts, extra):
    out = []
    for pi, (t, e) in enumerate(zip(parts, extra)):
        rows = len(t) + e
        a = np.zeros((rows, 3), dtype=np.float32)
        a[:, 0] = pi
        a[:, 1] = np.arange(rows)
        a[:, 2] = pi * 100 + np.arange(rows)
        out.append(a)
    return out


def check_merge(ctx, parts, extra, tag):
    from pero_ocr.ocr_engine import line_ocr_engine as E
    logits = make_logits(parts, extra)
    parts_in = list(parts)
    logits_in = [l.copy() for l in logits]
    res = ctx.must("merge_raises", E.merge_transcriptions_and_logits, parts_in, logits_in)
    ctx.check(parts_in == list(parts) and all(np.array_equal(x, y) for x, y in zip(logits_in, logits)), "merge_modifies_its_input",
              lambda: "parts=%r" % (parts,))
    text, merged = res
    # the rows handed back for one line stay what they are when the next line is stitched (process_lines collects the
    # results of all split lines of a batch before it returns them)
    merged_first = np.asarray(merged)
    kept = merged_first.copy()
    other_logits = [l[::-1].copy() + 1000.0 for l in logits]
    ctx.must("merge_raises", E.merge_transcriptions_and_logits, list(parts), other_logits)
    ctx.check(merged_first.shape == kept.shape and np.array_equal(merged_first, kept), "merged_logits_of_an_earlier_line_changed_by_a_later_merge",
              lambda: "parts=%r: the rows returned for the first call were altered by a second call" % (parts,))
    cands = reference_merges(ctx, parts, E.find_best_overlap)
    desc = lambda: "parts=%r result=%r allowed=%r" % (parts, text, [(c[0], c[2]) for c in cands])
    match = [c for c in cands if c[0] == text]
    ctx.check(bool(match), "merged_text_not_allowed", desc)
    ovs_sets = [c[2] for c in match]
    ctx.check(any(len(text) == sum(len(p) for p in parts) - sum(ov) for ov in ovs_sets), "merged_length", desc)
    # begins with first part less at most half the first overlap; ends with the last part likewise
    if len(parts) > 1:
        ok = False
        for ov in ovs_sets:
            o1, ol = ov[0], ov[-1]
            keep = len(parts[0]) - (o1 + 1) // 2
            tail = parts[-1][(ol + 1) // 2:]
            if text.startswith(parts[0][:max(keep, 0)]) and text.endswith(tail):
                ok = True
        # (only meaningful when later cuts do not reach into the first part: guaranteed when middle parts are long enough)
        if all(len(p) >= 2 * max(1, max(ov)) for p in parts for ov in ovs_sets):
            ctx.check(ok, "prefix_or_suffix_lost", desc)
    merged = np.asarray(merged)
    ctx.check(merged.shape[0] == len(text), "logit_rows_differ_from_text_length",
              lambda: "parts=%r extra=%r text=%r logits rows=%d" % (parts, extra, text, merged.shape[0]))
    prov_ok = False
    for c in match:
        want = [(float(p), float(r)) for p, r in c[1]]
        got = [(float(a[0]), float(a[1])) for a in merged]
        if want == got:
            prov_ok = True
    ctx.check(prov_ok, "logit_rows_wrong_source", lambda: "parts=%r extra=%r text=%r rows(part,row)=%r want one of %r" % (
        parts, extra, text, [(int(a[0]), int(a[1])) for a in merged], [c[1] for c in match]))
    # classes
    ne = [p for p in parts if p]
    allo = [o for ov in ovs_sets for o in ov]
    if any(not p for p in parts):
        ctx.event("has_empty_part")
    if 0 in allo:
        ctx.event("overlap_zero")
    if any(o > 0 for o in allo):
        ctx.event("overlap_positive")
    if len(ne) >= 2 and allo:
        ctx.nontrivial((tag, parts))
    # concatenation clause stated directly
    if len(parts) >= 2 and all(o == 0 for ov in ovs_sets for o in ov):
        ctx.check(text == "".join(parts), "no_overlap_not_concatenated", desc)


# ---------------------------------------------------------------- generators
def strat_parts():
    from hypothesis import strategies as st
    alpha = "abcde fg"
    # decomposed text: base letters followed by combining marks (accents, vowel signs), as many OCR alphabets emit it
    alpha_marks = "ae\u0301\u0308o \u0651\u0628"

    @st.composite
    def windows(draw):
        text = draw(st.text(alphabet=alpha, min_size=4, max_size=40))
        if draw(st.integers(0, 5)) == 0:
            text = draw(st.text(alphabet=alpha_marks, min_size=4, max_size=40))
        if draw(st.integers(0, 9)) == 0:
            text = draw(st.text(alphabet=alpha + "hijklmnopqrstuvwxyz", min_size=150, max_size=300))     # a long text line
        n = draw(st.integers(2, 5))
        w = draw(st.integers(2, max(2, len(text)))) if len(text) <= 40 else draw(st.integers(40, 90))
        ov = draw(st.integers(0, w - 1))
        parts = []
        start = 0
        for _ in range(n):
            parts.append(text[start:start + w])
            start += max(1, w - ov)
        noise = draw(st.integers(0, 3))
        for _ in range(noise):
            i = draw(st.integers(0, len(parts) - 1))
            if parts[i]:
                k = draw(st.integers(0, len(parts[i]) - 1))
                op = draw(st.integers(0, 1))
                if op == 0:
                    parts[i] = parts[i][:k] + draw(st.sampled_from(alpha)) + parts[i][k + 1:]
                else:
                    parts[i] = parts[i][:k] + parts[i][k + 1:]
        return parts

    unrelated = st.lists(st.text(alphabet=alpha, max_size=8), min_size=1, max_size=5)
    disjoint = st.lists(st.sampled_from(["hello ", "xyz", "QRS", "12", "", "mnop", "UVW "]), min_size=1, max_size=5)

    @st.composite
    def case(draw):
        parts = draw(st.one_of(windows(), unrelated, disjoint))
        if draw(st.integers(0, 4)) == 0:
            parts.insert(draw(st.integers(0, len(parts))), "")
        parts = parts[:5]
        extra = [draw(st.integers(0, 3)) for _ in parts]
        return parts, extra
    return case()


def body_merge(ctx, case):
    parts, extra = case
    check_merge(ctx, list(parts), list(extra), "merge")


def strat_overlap():
    from hypothesis import strategies as st
    t = st.text(alphabet="abc ", max_size=10)

    @st.composite
    def pair(draw):
        a = draw(t)
        if draw(st.booleans()) and a:
            k = draw(st.integers(0, len(a)))
            b = a[len(a) - k:] + draw(t)
        else:
            b = draw(t)
        return a, b
    return pair()


def body_overlap(ctx, case):
    from pero_ocr.ocr_engine import line_ocr_engine as E
    a, b = case
    import zlib
    if zlib.crc32((a + "|" + b).encode("utf8")) % 89 == 0:
        # once in about a hundred cases: two noise-free windows of a long text line at small type (about 400 characters each,
        # overlapping by 250-300): the true overlap is a perfect match, so the detected one must be perfect too (and positive)
        rs = np.random.RandomState(zlib.crc32((a + "|" + b).encode("utf8")) % (2 ** 31))
        text = "".join(rs.choice(list("abcdefgh "), size=900))
        w1, o_true = int(rs.randint(380, 440)), int(rs.randint(250, 300))
        la, lb = text[:w1], text[w1 - o_true:w1 - o_true + int(rs.randint(380, 440))]
        if rs.randint(0, 2):
            # one misread character inside the overlap: the true overlap has an error rate of 1/o, every other suffix/prefix
            # pair of this random text far more, so the arg min is the true overlap
            k = int(rs.randint(5, o_true - 5))
            lb = lb[:k] + "#" + lb[k + 1:]
        d = int(ctx.must("find_best_overlap_raises", E.find_best_overlap, la, lb))
        # arg min of the error rate, shortest on ties: a coincidental perfect match of a few characters (error rate 0) beats
        # everything; otherwise the true overlap (error rate 0 or 1/o) - no other suffix/prefix pair of a random text comes close
        perfect = [i for i in range(1, min(len(la), len(lb)) + 1) if la[-i:] == lb[:i]]
        want_d = min(perfect) if perfect else o_true
        ctx.check(d == want_d, "overlap_not_argmin_cer",
                  lambda: "windows of %d and %d characters of a random text overlapping by %d (at most one misread character): detected %d, expected %d" % (len(la), len(lb), o_true, d, want_d))
        ctx.event("windows_of_about_400_characters")
    o = ctx.must("find_best_overlap_raises", E.find_best_overlap, a, b)
    adm = overlap_def(a, b)
    ctx.check(int(o) in adm, "overlap_not_argmin_cer", lambda: "text1=%r text2=%r detected %r allowed %r" % (a, b, o, sorted(adm)))
    ctx.check(0 <= o <= min(len(a), len(b)), "overlap_out_of_range", lambda: "%r %r -> %r" % (a, b, o))
    if a and b and o > 0 and a[-o:] != b[:o]:
        ctx.nontrivial(("overlap-noisy", a, b))
    elif a and b:
        ctx.event("exact_or_zero_overlap")
        if o > 0:
            ctx.nontrivial(("overlap", a, b))


def enum_cases(tier):
    strs = ["".join(p) for k in range(5) for p in itertools.product("ab", repeat=k)]
    return [(a, b) for a in strs for b in strs]


def body_enum(ctx, case):
    a, b = case
    body_overlap(ctx, case)
    check_merge(ctx, [a, b], [0, 1], "pair")


# ---------------------------------------------------------------- process_lines (transformer mode) with a stub recogniser
CW = 4          # pixel-code block width
CHARS = "abcdefgh"


def paint(classes, height=8):
    img = np.zeros((height, len(classes) * CW, 3), dtype=np.uint8)
    for i, c in enumerate(classes):
        img[:, i * CW:(i + 1) * CW, :] = (c + 1) * 20
    return img


def read_window(img):
    """the stub recogniser: one character per aligned block whose first column is painted."""
    vals = img[0, ::CW, 0]
    return "".join(CHARS[v // 20 - 1] for v in vals if v >= 20)


class StubEngine:
    pass


def make_engine(mlw, batch_size, calls):
    from pero_ocr.ocr_engine.line_ocr_engine import BaseEngineLineOCR
    import torch
    eng = object.__new__(BaseEngineLineOCR)
    eng.line_px_height = 8
    eng.max_line_width = mlw
    eng.model_type = "transformer"
    eng.device = torch.device("cpu")
    eng.batch_size = batch_size
    eng.line_padding_px = 32
    eng.max_input_horizontal_pixels = 480 * batch_size
    eng.net_subsampling = 4
    eng.characters = list(CHARS)

    def run_ocr(batch):
        ts, ls = [], []
        for k, im in enumerate(batch):
            t = read_window(im)
            calls.append(t)
            rows = len(t) + 2
            a = np.zeros((rows, 3), dtype=np.float32)
            a[:, 0] = len(calls)
            a[:, 1] = np.arange(rows)
            ts.append(t)
            ls.append(a)
        return ts, ls
    eng.run_ocr = run_ocr
    return eng


def strat_lines():
    from hypothesis import strategies as st
    line = st.lists(st.integers(0, len(CHARS) - 1), min_size=1, max_size=90) | st.lists(st.integers(0, len(CHARS) - 1), min_size=24, max_size=120)
    return st.tuples(st.lists(line, min_size=1, max_size=5) | st.lists(line, min_size=2, max_size=4), st.sampled_from([32, 48, 64, 96, 128]), st.integers(1, 4),
                     st.lists(st.integers(0, 3), min_size=5, max_size=5))


def expected_windows(img, mlw):
    w = img.shape[1]
    if w <= mlw:
        return [img]
    overlap = mlw // 4
    out = []
    start = 0
    while start + mlw < w:
        out.append(img[:, start:start + mlw])
        start += mlw - overlap
    out.append(img[:, start:start + mlw])
    return out


def body_lines(ctx, case):
    from pero_ocr.ocr_engine import line_ocr_engine as E
    lines_classes, mlw, bs, trims = case
    imgs = []
    for cl, tr in zip(lines_classes, trims):
        im = paint(cl)
        if tr and im.shape[1] > tr:
            im = im[:, :im.shape[1] - tr]      # widths that are not a multiple of the block width
        imgs.append(im)
    calls = []
    eng = make_engine(mlw, bs, calls)
    res = ctx.must("process_lines_raises", eng.process_lines, imgs, False)
    ts, ls, coords = res
    # the text-only mode (no_logits=True, used when only transcriptions are wanted) stitches the same text
    res_text = ctx.must("process_lines_raises", make_engine(mlw, bs, []).process_lines, [im.copy() for im in imgs], False, False, True)
    ctx.check(list(res_text[0]) == list(ts), "text_only_mode_stitches_differently",
              lambda: "classes=%r max_line_width=%d: with logits %r, no_logits %r" % (lines_classes, mlw, ts, res_text[0]))
    ctx.check(all(l is None for l in res_text[1]), "logits_returned_in_no_logits_mode", lambda: "%r" % (res_text[1],))
    # sparse storage of the stitched logits (the default of process_lines)
    res_sp = ctx.must("process_lines_raises", make_engine(mlw, bs, []).process_lines, [im.copy() for im in imgs], True)
    ctx.check(list(res_sp[0]) == list(ts), "sparse_mode_stitches_differently", lambda: "dense %r sparse %r" % (ts, res_sp[0]))
    ctx.check(all(hasattr(l, "toarray") and l.shape[0] == len(t) for l, t in zip(res_sp[1], ts)), "sparse_logit_rows_differ_from_text_length",
              lambda: "%r" % ([getattr(l, "shape", None) for l in res_sp[1]],))
    split = False
    for i, im in enumerate(imgs):
        wins = expected_windows(im, mlw)
        # every pixel column of the line is inside some window (no part of the line is dropped)
        parts = []
        for wi in wins:
            pad = np.zeros((wi.shape[0], 32, 3), dtype=np.uint8)
            parts.append(read_window(np.concatenate([pad, wi], axis=1)))
        if len(wins) > 1:
            split = True
        cands = reference_merges(ctx, parts, E.find_best_overlap)
        desc = lambda: "line %d classes=%r width=%d max_line_width=%d parts=%r result=%r allowed=%r" % (
            i, lines_classes[i], im.shape[1], mlw, parts, ts[i], [c[0] for c in cands])
        ctx.check(any(c[0] == ts[i] for c in cands), "line_text_not_merge_of_its_windows", desc)
        ctx.check(ls[i] is not None and ls[i].shape[0] == len(ts[i]), "logit_rows_differ_from_text_length", desc)
        ctx.check(coords[i] is not None and list(coords[i]) == [0, len(ts[i])], "logit_coords", lambda: "coords=%r text=%r" % (coords[i], ts[i]))
        if len(wins) > 1:
            ctx.event("windows:%d" % min(len(wins), 6))
    if split and len(imgs) >= 2:
        ctx.nontrivial(("lines", lines_classes, mlw, bs, trims))


# ---------------------------------------------------------------- true windows of one text: nothing may be lost
def strat_true_windows():
    from hypothesis import strategies as st

    @st.composite
    def case(draw):
        kind = draw(st.sampled_from(["periodic", "periodic", "random", "words"]))
        if kind == "periodic":
            motif = draw(st.sampled_from(["abc", "ha ", "ab", "abcd", "na", "la la ", "0", "xyx"]))
            text = motif * draw(st.integers(2, 12)) + draw(st.text(alphabet="abdxyz ", max_size=6))
            if draw(st.booleans()):
                text = draw(st.text(alphabet="abdxyz ", max_size=6)) + text
        elif kind == "words":
            text = " ".join(draw(st.lists(st.sampled_from(["the", "then", "hen", "he", "a", "that", "hat", "at"]), min_size=3, max_size=14)))
        else:
            text = draw(st.text(alphabet="abc ", min_size=6, max_size=50))
        w = draw(st.integers(3, max(3, min(24, len(text) - 1))))
        step = draw(st.integers(1, w - 1))
        extras = draw(st.lists(st.integers(0, 3), min_size=60, max_size=60))
        return text, w, step, extras
    return case()


def is_subsequence(small, big):
    it = iter(big)
    return all(ch in it for ch in small)


def body_true_windows(ctx, case):
    """Noise-free windows of one text, every window overlapping its predecessor by w - step >= 1 characters: the true overlap
    is then a perfect match, and whatever overlap is detected, stitching may repeat characters of a repetitive passage but
    must never lose one - the text is a subsequence of the result, which begins with the first and ends with the last window."""
    from pero_ocr.ocr_engine import line_ocr_engine as E
    text, w, step, extras = case
    if len(text) < w + 1:
        return
    parts, start = [], 0
    while True:
        parts.append(text[start:start + w])
        if start + w >= len(text):
            break
        start += step
    if len(parts) < 2 or len(parts) > 60:
        return
    logits = make_logits(parts, extras[:len(parts)])
    res = ctx.must("merge_raises", E.merge_transcriptions_and_logits, list(parts), [l.copy() for l in logits])
    merged, rows = res
    desc = lambda: "text=%r window=%d step=%d parts=%r merged=%r" % (text, w, step, parts, merged)
    ctx.check(is_subsequence(text, merged), "text_lost_when_stitching_true_windows", desc)
    ctx.check(merged.endswith(parts[-1]), "prefix_or_suffix_lost", desc)
    ctx.check(merged.startswith(parts[0][:len(parts[0]) - (w - step + 1) // 2]), "prefix_or_suffix_lost", desc)
    ctx.check(np.asarray(rows).shape[0] == len(merged), "logit_rows_differ_from_text_length", desc)
    if merged == text:
        ctx.event("text_restored_exactly")
    else:
        ctx.event("repetitive_seam_repeated_characters")
    # a seam inside a repetitive passage: more than one perfect suffix/prefix match
    perfect = [i for i in range(1, min(len(parts[0]), len(parts[1])) + 1) if parts[0][-i:] == parts[1][:i]]
    if len(perfect) >= 2:
        ctx.event("several_perfect_overlaps_at_a_seam")
        ctx.nontrivial(("true_windows", text, w, step))
    elif len(parts) >= 3:
        ctx.nontrivial(("true_windows", text, w, step))


UNITS = [
    Unit("merge", "given", body=body_merge, strategy=strat_parts, quick=2000, thorough=50000),
    Unit("true_windows", "given", body=body_true_windows, strategy=strat_true_windows, quick=1500, thorough=30000),
    Unit("overlap", "given", body=body_overlap, strategy=strat_overlap, quick=1000, thorough=20000),
    Unit("pairs", "enum", body=body_enum, cases=enum_cases, exhaustive=True),
    Unit("process_lines", "given", body=body_lines, strategy=strat_lines, quick=300, thorough=6000),
]
