"""C05 - forced alignment is a valid, minimum-cost CTC alignment."""
import itertools
import math

import numpy as np

from vlib.core import Unit
from vlib.ctc import collapse

PROPERTY = "C05"
LEVEL = "exploration"
RULE = ("Cost matrices T<=10 x C<=5 (floats in [0,20], small integers with ties, a drawn fraction of +inf), blank "
        "index anywhere, label sequences of length 1..T+2 with boosted immediate repeats (both sides of the "
        "feasibility boundary T >= len + #adjacent repeats) and sequences containing the blank; judged against "
        "brute force over all C^T labellings (<= 20000) and an independent O(T*L) DP (cross-checked). align_text is "
        "checked against the per-frame positions of force_align. Non-trivial: feasible, T > len(labels) and >= 2 "
        "distinct valid alignments; distinct by (matrix, labels, blank). Thorough adds the complete space C=3, "
        "T<=3, costs in {0,1,inf}, all label sequences of length <= 3.")
ASSUMPTIONS = ["when an instance is structurally alignable but every alignment costs +inf, either a ValueError or a "
               "valid infinite-cost alignment is accepted",
               "'most confident' in align_text is accepted in either reading (largest posterior of the frame, or "
               "posterior of the aligned character); ties are free"]

INF = float("inf")


def feasible(T, labels):
    reps = sum(1 for a, b in zip(labels, labels[1:]) if a == b)
    return T >= len(labels) + reps


def dp_min(cost, labels, blank):
    """independent DP: minimum cost of a frame labelling that collapses to labels."""
    T = cost.shape[0]
    ext = [blank]
    for c in labels:
        ext += [c, blank]
    S = len(ext)
    cur = [INF] * S
    cur[0] = float(cost[0, ext[0]])
    if S > 1:
        cur[1] = float(cost[0, ext[1]])
    for t in range(1, T):
        new = [INF] * S
        for s in range(S):
            b = cur[s]
            if s >= 1 and cur[s - 1] < b:
                b = cur[s - 1]
            if s >= 2 and ext[s] != blank and ext[s] != ext[s - 2] and cur[s - 2] < b:
                b = cur[s - 2]
            new[s] = b + float(cost[t, ext[s]])
        cur = new
    return min(cur[-1], cur[-2]) if S > 1 else cur[-1]


def brute_min(cost, labels, blank):
    T, C = cost.shape
    best = INF
    n = 0
    rows = [[float(x) for x in r] for r in cost]
    want = tuple(labels)
    for path in itertools.product(range(C), repeat=T):
        if collapse(path, blank) != want:
            continue
        n += 1
        c = 0.0
        for t, s in enumerate(path):
            c += rows[t][s]
        if c < best:
            best = c
    return best, n


def path_cost(cost, path):
    return sum(float(cost[t, s]) for t, s in enumerate(path))


def close(a, b):
    if a == b:
        return True
    return abs(a - b) <= 1e-9 * (1 + abs(b))


def run_case(ctx, cost, labels, blank, tag):
    from pero_ocr.core import force_alignment as FA
    T, C = cost.shape
    labels = [int(x) for x in labels]
    desc = lambda: "blank=%d labels=%r cost=\n%s" % (blank, labels, np.array2string(cost, max_line_width=200))
    has_blank = blank in labels
    struct_ok = (not has_blank) and feasible(T, labels)
    if T >= 60:
        ctx.event("realistic_length")
        if len(labels) >= 33:
            ctx.event("more_than_32_labels")
        if len(labels) >= 128:
            ctx.event("more_than_255_trellis_states")
        if float(cost.min(axis=1).max()) <= 1.0:
            ctx.event("text_written_unevenly_along_the_line")
    small = C ** T <= 20000
    if struct_ok:
        opt = dp_min(cost, labels, blank)
        if small:
            bf, n_align = brute_min(cost, labels, blank)
            ctx.check(close(bf, opt) or (bf == INF and opt == INF), "ORACLE_DISAGREE", lambda: "brute %r dp %r; " % (bf, opt) + desc())
        else:
            n_align = None
    else:
        opt = INF
        n_align = 0
    try:
        c_in = cost.copy()
        if np.array_equal(cost.astype(np.float32).astype(np.float64), cost) and (int(cost.shape[0]) + len(labels)) % 2:
            c_in = cost.astype(np.float32)          # what the engines hand over
            ctx.event("float32_costs")
        l_in = list(labels) if len(labels) % 2 else np.asarray(labels)
        res = FA.force_align(c_in, l_in, blank)
        ctx.check(np.array_equal(np.asarray(c_in, dtype=np.float64), cost) and list(l_in) == list(labels), "force_align_modifies_its_input", desc)
        err = None
    except ValueError as e:
        res, err = None, e
    except Exception as e:  # noqa
        ctx.fail("force_align_wrong_exception", "%s: %s; " % (type(e).__name__, e) + desc())
    if has_blank or not struct_ok:
        # the per-character positions are derived from the alignment: no alignment, no positions
        try:
            pos_res = FA.align_text(cost.copy(), np.asarray(labels), blank)
            pos_err = None
        except ValueError as e:
            pos_res, pos_err = None, e
        except Exception as e:  # noqa
            ctx.fail("align_text_wrong_exception", "%s: %s; " % (type(e).__name__, e) + desc())
        ctx.check(pos_err is not None, "impossible_alignment_not_reported_by_align_text", lambda: "returned %r; " % (pos_res,) + desc())
    if has_blank:
        ctx.event("labels_contain_blank")
        ctx.check(err is not None, "blank_in_labels_not_reported", lambda: "returned %r; " % (res,) + desc())
        return
    if not struct_ok:
        ctx.event("too_few_frames")
        ctx.check(err is not None, "impossible_alignment_not_reported", lambda: "returned %r; " % (res,) + desc())
        return
    if opt == INF:
        ctx.event("all_alignments_infinite")
        if err is not None:
            return
    else:
        ctx.check(err is None, "failure_reported_although_alignment_exists",
                  lambda: "raised %r, minimum cost %r; " % (err, opt) + desc())
    res = [int(x) for x in res]
    ctx.check(len(res) == T, "not_one_symbol_per_frame", lambda: "result %r; " % (res,) + desc())
    ctx.check(all(0 <= s < C for s in res), "symbol_out_of_range", lambda: "result %r; " % (res,) + desc())
    ctx.check(list(collapse(res, blank)) == labels, "alignment_does_not_collapse_to_labels",
              lambda: "result %r collapses to %r; " % (res, list(collapse(res, blank))) + desc())
    c = path_cost(cost, res)
    ctx.check(close(c, opt) or (c == INF and opt == INF), "alignment_not_minimum_cost",
              lambda: "result %r costs %r, minimum %r; " % (res, c, opt) + desc())
    # positions variant is the same path
    pos = [int(x) for x in FA.force_align(cost.copy(), list(labels), blank, return_seq_positions=True)]
    ctx.check(len(pos) == T and all((p == -1) == (s == blank) for p, s in zip(pos, res))
              and all(p == -1 or labels[p] == s for p, s in zip(pos, res)), "seq_positions_inconsistent",
              lambda: "symbols %r positions %r; " % (res, pos) + desc())
    if opt != INF:
        # align_text
        nl = -np.asarray(cost, dtype=np.float64)
        try:
            ap = FA.align_text(cost.copy(), np.asarray(labels), blank)
        except Exception as e:  # noqa
            ctx.fail("align_text_raises", "%s: %s; " % (type(e).__name__, e) + desc())
        ap = [int(x) for x in ap]
        ctx.check(len(ap) == len(labels) and all(a < b for a, b in zip(ap, ap[1:])), "char_positions_not_increasing",
                  lambda: "positions %r; " % (ap,) + desc())
        for i, p in enumerate(ap):
            ctx.check(0 <= p < T and pos[p] == i, "char_position_not_aligned_to_char",
                      lambda: "char %d at frame %d, frame positions %r; " % (i, p, pos) + desc())
            frames = [f for f in range(T) if pos[f] == i]
            r1 = max(float(nl[f].max()) for f in frames)
            r2 = max(float(nl[f, labels[i]]) for f in frames)
            ok = float(nl[p].max()) >= r1 - 1e-12 or float(nl[p, labels[i]]) >= r2 - 1e-12
            ctx.check(ok, "char_position_not_most_confident_frame",
                      lambda: "char %d at frame %d of frames %r; " % (i, p, frames) + desc())
    if opt != INF and T <= 60:
        # the caller's matrix buffer is re-used for the next line (same array object, new content): the result must be that
        # of the new content
        import zlib
        rs2 = np.random.RandomState(zlib.crc32(np.ascontiguousarray(cost).tobytes()) % (2 ** 31))
        cost2 = np.where(np.isfinite(cost), cost + rs2.uniform(0, 8, size=cost.shape), cost)
        buf = cost.copy()
        FA.align_text(buf, np.asarray(labels), blank)
        FA.force_align(buf, list(labels), blank)
        buf[...] = cost2
        got_t = [int(x) for x in FA.align_text(buf, np.asarray(labels), blank)]
        got_f = [int(x) for x in FA.force_align(buf, list(labels), blank)]
        want_t = [int(x) for x in FA.align_text(cost2.copy(), np.asarray(labels), blank)]
        want_f = [int(x) for x in FA.force_align(cost2.copy(), list(labels), blank)]
        ctx.check(got_t == want_t and got_f == want_f, "result_for_a_reused_buffer_is_that_of_its_earlier_content",
                  lambda: "align_text %r / %r, force_align %r / %r for the new content %s; " % (got_t, want_t, got_f, want_f, np.array2string(cost2, max_line_width=200)) + desc())
    if T > len(labels) and (n_align is None or n_align >= 2) and opt != INF:
        ctx.nontrivial((tag, cost.tobytes(), cost.shape, tuple(labels), blank),
                       sample="blank=%d labels=%r cost=%s" % (blank, labels, np.array2string(np.round(cost, 2), max_line_width=200)))
    if any(a == b for a, b in zip(labels, labels[1:])):
        ctx.event("adjacent_repeat")
    if np.isinf(cost).any():
        ctx.event("has_inf")


def strat():
    from hypothesis import strategies as st

    @st.composite
    def case(draw):
        big = draw(st.integers(0, 9)) == 0          # a line of realistic length
        T = draw(st.integers(60, 250)) if big else draw(st.integers(1, 10))
        C = draw(st.integers(3, 9)) if big else draw(st.integers(2, 5))
        # one long line in four is a full text line over a real alphabet: more than 128 labels (more than 255 trellis states)
        # and class ids beyond 127 / 255
        very_big = big and draw(st.integers(0, 3)) == 0
        if very_big:
            T = draw(st.integers(300, 420))
            C = draw(st.sampled_from([140, 300]))
        blank = draw(st.integers(0, C - 1))
        kind = draw(st.sampled_from(["float", "float", "int", "int01", "huge", "tiny", "signed"]))
        pinf = draw(st.sampled_from([0.0, 0.0, 0.15, 0.4]))
        rows = []
        if big:
            rs_big = np.random.RandomState(draw(st.integers(0, 2 ** 31 - 1)))
            rows = rs_big.uniform(0, 20, size=(T, C)).tolist()
        for _ in range(0 if big else T):
            r = []
            for _ in range(C):
                if pinf and draw(st.floats(0, 1)) < pinf:
                    r.append(INF)
                elif kind == "float":
                    r.append(draw(st.floats(0, 20, allow_nan=False, width=32)))
                elif kind == "huge":        # -log of probabilities far below the float range of exp()
                    r.append(float(draw(st.integers(750, 3000))) + draw(st.sampled_from([0.0, 0.25])))
                elif kind == "tiny":        # -log of probabilities indistinguishable from 1 after exp()
                    r.append(draw(st.sampled_from([0.0, 1e-18, 3e-17, 5e-16, 1e-12, 2e-9])))
                elif kind == "signed":      # costs are any real numbers (scores with a bonus, log-likelihood ratios): negative ones too
                    r.append(draw(st.floats(-6, 6, allow_nan=False, width=32)))
                elif kind == "int":
                    r.append(float(draw(st.integers(0, 4))))
                else:
                    r.append(float(draw(st.integers(0, 1))))
            rows.append(r)
        cost = np.asarray(rows, dtype=np.float64)
        if draw(st.integers(0, 3)) == 0:
            cost = cost.astype(np.float32).astype(np.float64)      # float32-representable values: also run as float32 below
        nonblank = [c for c in range(C) if c != blank]
        L = draw(st.integers(1, T + 2)) if draw(st.integers(0, 3)) == 0 else draw(st.integers(1, max(1, T - 1)))
        planted = big and draw(st.booleans())
        if big:
            L = draw(st.integers(20, max(21, T // 2)))
        if very_big:
            L = draw(st.integers(130, min(180, T // 2 - 5)))
        if planted:
            T = cost.shape[0]
            L = draw(st.integers(20, max(21, T // 4)))      # a short text on a long line
        labels = []
        for i in range(L):
            if labels and draw(st.integers(0, 3)) == 0:
                labels.append(labels[-1])
            else:
                labels.append(draw(st.sampled_from(nonblank)))
        if draw(st.integers(0, 11)) == 0:
            labels[draw(st.integers(0, L - 1))] = blank
        if planted:
            # text written unevenly along the line: all the labels sit in one part of the frames (start, end or
            # middle), the rest is blank - the cheapest alignment runs far from the diagonal of the trellis
            where = draw(st.sampled_from(["start", "end", "middle"]))
            span = max(2 * L, int(T * draw(st.sampled_from([0.0, 0.35, 0.5, 0.7]))))
            span = min(span, T)
            off = {"start": 0, "end": T - span, "middle": (T - span) // 2}[where]
            slots = sorted(rs_big.choice(span // 2, size=min(L, span // 2), replace=False).tolist())
            if len(slots) == L:
                cost = rs_big.uniform(6, 20, size=(T, C))
                cost[:, blank] = rs_big.uniform(0, 1, size=T)
                for lab, sl in zip(labels, slots):
                    cost[off + 2 * sl, :] = rs_big.uniform(6, 20, size=C)
                    cost[off + 2 * sl, lab] = rs_big.uniform(0, 1)
        return cost, labels, blank
    return case()


def body(ctx, case):
    cost, labels, blank = case
    run_case(ctx, cost, labels, blank, "rand")


def render(case):
    cost, labels, blank = case
    return "blank=%d labels=%r cost=%s" % (blank, labels, np.array2string(cost, max_line_width=200))


def grid_cases(tier):
    maxT = 2 if tier == "quick" else 3
    vals = (0.0, 1.0, INF)
    out = []
    labs = [list(p) for k in range(1, 4) for p in itertools.product((0, 1), repeat=k)]
    for T in range(1, maxT + 1):
        for flat in itertools.product(vals, repeat=3 * T):
            for lab in labs:
                out.append((flat, T, lab))
    return out


def body_grid(ctx, case):
    flat, T, lab = case
    cost = np.asarray(flat, dtype=np.float64).reshape(T, 3)
    run_case(ctx, cost, lab, 2, "grid")


UNITS = [
    Unit("random", "given", body=body, strategy=strat, quick=2000, thorough=40000, render=render),
    Unit("grid", "enum", body=body_grid, cases=grid_cases, exhaustive=True),
]
