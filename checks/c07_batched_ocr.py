"""C07 - batched line recognition returns each line's own result in input order."""
import contextlib
import io

import numpy as np

from vlib.core import Unit

PROPERTY = "C07"
LEVEL = "exploration"
RULE = ("Lists of 0-12 'pixel table' line crops (height 16, widths 1 px .. beyond the engine maximum, forced equal-width "
        "groups, widths that are not multiples of the subsampling), batch sizes 1-4 (engine maximum 480*bs px), modes "
        "sparse/dense, tight-crop, no-logits, a drawn permutation; two TorchScript stub networks (block-local; +-8 px "
        "receptive field) behind the real PytorchEngineLineOCR. Oracle: (1) reference model - the transcription of a crop "
        "is the collapse of its painted classes; (2) metamorphic - identical result for a permuted list, for the crop "
        "alone and for every batch size, truncated crop for over-long lines; (3) frame window = [pad/4, floor|ceil((pad+w)"
        "/4)) and frames outside decode to blank; (4) sparse storage vs a dense run with the 1e-4 posterior threshold; "
        "PageOCR.process_page puts result i on line i. Non-trivial: >= 3 crops of >= 2 widths with different texts "
        "processed in >= 2 batches; distinct by the case.")
ASSUMPTIONS = ["stub networks have a bounded horizontal receptive field (<= 8 px), smaller than the 32 px padding",
               "posteriors within [0.999e-4, 1.001e-4] are undecided for the sparsity clause (float32 softmax)",
               "for over-long (truncated) lines only the start of the frame window is asserted"]

# the table contains combining marks as classes of their own (decomposed text): "a" + U+0301, "e" + U+0308 have precomposed forms
CHARS = ["a", "\u0301", "e", "\u0308", "b", "c", "d"] + [chr(0x3b1 + i) for i in range(40)]
H = 16
PAD = 32


def ref_collapse(path, blank):
    out = []
    prev = None
    for s in path:
        if s != prev and s != blank:
            out.append(CHARS[s])
        prev = s
    return "".join(out)


def strat():
    from hypothesis import strategies as st

    @st.composite
    def case(draw):
        C = draw(st.integers(3, 8))
        bs = draw(st.sampled_from([1, 2, 4, 1, 2, 4, 8, 16]))
        limit = 480 * bs
        if draw(st.integers(0, 7)) == 0:
            # a character table as large as the number of output frames of a (padded) batch: 24/32/40 classes and a list
            # whose widest line needs 24/32/40 frames (crops of height 48 so that the table fits)
            C = draw(st.sampled_from([24, 32, 40]))
            lo, hi = {24: (1, 8), 32: (9, 16), 40: (17, 24)}[C]
            n = draw(st.integers(1, 6))
            crops = [dict(T=draw(st.integers(lo, hi)), tail=draw(st.integers(0, 3)), seed=draw(st.integers(0, 2 ** 31 - 1)),
                          style=draw(st.sampled_from(["onehot", "graded"])))]
            for _ in range(n - 1):
                crops.append(dict(T=draw(st.integers(1, hi)), tail=draw(st.integers(0, 3)), seed=draw(st.integers(0, 2 ** 31 - 1)),
                                  style=draw(st.sampled_from(["onehot", "graded"]))))
            return dict(C=C, bs=bs, crops=crops, perm=list(draw(st.permutations(list(range(n))))), blur=0,
                        mode=draw(st.sampled_from(["sparse", "dense", "tight", "nologits"])), other_bs=draw(st.sampled_from([1, 2, 3, 4, 5, 7, 8, 16])))
        pk = draw(st.integers(0, 39))
        narrow = False
        if pk == 0:             # more lines than any internal chunk: a list of a few hundred short lines
            n, narrow = draw(st.integers(257, 290)), True
        elif pk <= 2:           # a page of many narrow lines (table cells, page numbers): dozens of lines in one batch
            n, narrow, bs = draw(st.integers(36, 80)), True, 4
            limit = 480 * bs
        elif pk <= 5:
            n = draw(st.integers(30, 60))        # a whole page of lines
        else:
            n = draw(st.integers(0, 12))
        crops = []
        for i in range(n):
            kind = draw(st.sampled_from(["short", "short", "mid", "same", "long", "tiny"])) if not narrow else "narrow"
            if narrow and i % 16:
                # bulk of a big page: derived from the previous draw (keeps the number of Hypothesis draws bounded)
                prev = crops[-1]
                crops.append(dict(T=1 + (prev["T"] * 5 + i) % 7, tail=(prev["tail"] + i) % 4, seed=(prev["seed"] * 1103515245 + 12345 + i) % (2 ** 31),
                                  style=prev["style"]))
                continue
            if kind == "narrow":
                crops.append(dict(T=draw(st.integers(1, 7)), tail=draw(st.integers(0, 3)), seed=draw(st.integers(0, 2 ** 31 - 1)), style=draw(st.sampled_from(["onehot", "graded"]))))
                continue
            if kind == "same" and crops:
                T = crops[-1]["T"]
                tail = crops[-1]["tail"]
            elif kind == "tiny":
                T, tail = 1, draw(st.integers(0, 3))
            elif kind == "long":
                T, tail = draw(st.integers(limit // 4 - 12, limit // 4 + 30)), draw(st.integers(0, 3))
            elif kind == "mid":
                T, tail = draw(st.integers(20, 110)), draw(st.integers(0, 3))
            else:
                T, tail = draw(st.integers(1, 24)), draw(st.integers(0, 3))
            crops.append(dict(T=T, tail=tail, seed=draw(st.integers(0, 2 ** 31 - 1)), style=draw(st.sampled_from(["onehot", "graded"]))))
        perm = list(draw(st.permutations(list(range(n)))))
        return dict(C=C, bs=bs, crops=crops, perm=perm, blur=draw(st.sampled_from([0, 0, 2])),
                    mode=draw(st.sampled_from(["sparse", "sparse", "dense", "tight", "nologits"])),
                    other_bs=draw(st.sampled_from([1, 2, 3, 4, 5, 7, 8, 16])))
    return case()


def height_for(C):
    return H if C <= H else 48


def make_crop(spec, C):
    from vlib.stubs import paint_logits
    rs = np.random.RandomState(spec["seed"])
    T = spec["T"]
    blank = C - 1
    path = []
    while len(path) < T:
        c = rs.randint(0, C)
        path += [c] * rs.randint(1, 4)
    path = path[:T]
    if spec["style"] == "onehot":
        table = np.zeros((T, C), dtype=np.uint8)
    else:
        table = rs.randint(0, 190, size=(T, C)).astype(np.uint8)
    for t, c in enumerate(path):
        table[t, c] = 255
    img = paint_logits(table, height_for(C), spec["tail"])
    return img, path


_ENG = {}


def engine(C, blur, bs):
    from vlib.stubs import make_pytorch_engine
    key = (C, blur)
    if key not in _ENG:
        with contextlib.redirect_stdout(io.StringIO()):
            _ENG[key] = make_pytorch_engine(CHARS[:C - 1], height_for(C), blur)
    e = _ENG[key]
    e.batch_size = bs
    e.max_input_horizontal_pixels = 480 * bs
    return e


def run(eng, imgs, mode):
    kw = dict(sparse_logits=mode in ("sparse", "tight"), tight_crop_logits=mode == "tight", no_logits=mode == "nologits")
    with contextlib.redirect_stdout(io.StringIO()):
        return eng.process_lines([im.copy() for im in imgs], **kw)


def dense_of(l):
    return l.toarray() if hasattr(l, "toarray") else np.asarray(l)


def window_rows(logits, coords, mode):
    d = dense_of(logits)
    if mode == "tight":
        return d
    return d[coords[0]:coords[1]]


def n_batches(widths, limit):
    ws = sorted(widths, reverse=True)
    n = 0
    while ws:
        mw = int(np.ceil(ws[0] / 32.0) * 32)
        k = max(1, limit // mw)
        ws = ws[k:]
        n += 1
    return n


def body(ctx, case):
    C, bs, mode, blur = case["C"], case["bs"], case["mode"], case["blur"]
    blank = C - 1
    limit = 480 * bs
    eng = engine(C, blur, bs)
    made = [make_crop(s, C) for s in case["crops"]]
    imgs = [m[0] for m in made]
    paths = [m[1] for m in made]
    desc = lambda: "case=%r" % (case,)
    res = ctx.must("process_lines_raises", run, eng, imgs, mode)
    ts, ls, cs = res
    n = len(imgs)
    snap = [None if l is None else dense_of(l).copy() for l in ls]     # for the end of the body: later calls must not alter them
    ctx.check(len(ts) == n and len(ls) == n and len(cs) == n, "result_count", desc)
    ctx.event("mode:" + mode)
    ctx.event("blur:%d" % blur)
    for i, (im, path) in enumerate(zip(imgs, paths)):
        w = im.shape[1]
        truncated = w + PAD > limit
        info = lambda: "line %d width %d (limit %d) text %r window %r; " % (i, w, limit, ts[i], cs[i]) + desc()
        n_frames = -(-w // 4)
        if truncated:
            n_frames = min(n_frames, (limit - PAD) // 4)
            ctx.event("truncated_line")
        if blur == 0:
            want = ref_collapse(path[:n_frames], blank)
            ctx.check(ts[i] == want, "transcription_not_of_this_image", lambda: "expected %r; " % want + info())
        if mode == "nologits":
            ctx.check(ls[i] is None, "logits_returned_in_no_logits_mode", info)
            continue
        ctx.check(ls[i] is not None, "missing_logits", info)
        if mode == "tight":
            ctx.check(list(cs[i]) == [None, None], "tight_crop_window", info)
        else:
            a, b = cs[i]
            ctx.check(a == PAD // 4, "window_start_without_padding_offset", info)
            if not truncated:
                ctx.check(b in ((PAD + w) // 4, -(-(PAD + w) // 4)), "window_end_not_unpadded_extent", info)
        d = dense_of(ls[i])
        if mode != "tight":
            am = d.argmax(axis=1) if mode == "dense" else np.where(d == 0, -80.0, d).argmax(axis=1)
            a, b = cs[i]
            if blur == 0 and not truncated:
                inside = [int(x) for x in am[a:a + n_frames]]
                ctx.check(inside == [int(x) for x in path[:n_frames]], "window_frames_not_from_this_image",
                          lambda: "frames %r painted %r; " % (inside, path[:n_frames]) + info())
            outside = [int(x) for x in np.concatenate([am[:a], am[a + n_frames + (2 if blur else 0):]])]
            if blur:
                outside = [int(x) for x in np.concatenate([am[:max(0, a - 2)], am[a + n_frames + 2:]])]
            ctx.check(all(x == blank for x in outside), "frames_outside_window_not_blank", lambda: "outside %r; " % (outside,) + info())
        else:
            want_rows = (PAD + w) // 4 - PAD // 4
            if not truncated:
                ctx.check(d.shape[0] == want_rows, "tight_crop_rows", lambda: "rows %d expected %d; " % (d.shape[0], want_rows) + info())
    # ---- metamorphic: permutation, alone, other batch size -----------------
    if n:
        perm = case["perm"]
        res_p = ctx.must("process_lines_raises", run, eng, [imgs[j] for j in perm], mode)
        eng2 = engine(C, blur, case["other_bs"])
        limit2 = 480 * case["other_bs"]
        res_b = run(eng2, imgs, mode)
        eng = engine(C, blur, bs)
        alone_idx = sorted(set([0, n - 1, n // 2]))
        for k, j in enumerate(perm):
            cmp_result(ctx, "depends_on_list_order", (ts[j], ls[j], cs[j]), (res_p[0][k], res_p[1][k], res_p[2][k]), mode, j, desc)
        for j in range(n):
            if int(np.ceil(imgs[j].shape[1] / 32.0) * 32) + 2 * PAD > min(limit, limit2):
                continue        # beyond the engine maximum (480 px * batch size, padding included) under one of the two
                                # batch sizes: the line or its right padding is cut there, and the maximum itself differs
            cmp_result(ctx, "depends_on_batch_size", (ts[j], ls[j], cs[j]), (res_b[0][j], res_b[1][j], res_b[2][j]), mode, j, desc)
        for j in alone_idx:
            r1 = run(eng, [imgs[j]], mode)
            cmp_result(ctx, "depends_on_batch_companions", (ts[j], ls[j], cs[j]), (r1[0][0], r1[1][0], r1[2][0]), mode, j, desc)
            w = imgs[j].shape[1]
            if w + PAD > limit:
                cut = imgs[j][:, :limit - PAD]
                r2 = run(eng, [cut], mode)
                ctx.check(r2[0][0] == ts[j], "over_long_line_not_truncated_result", lambda: "line %d: %r vs truncated crop %r; " % (j, ts[j], r2[0][0]) + desc())
    # ---- sparsity against a dense run ---------------------------------------
    if mode == "sparse" and n:
        dres = run(eng, imgs, "dense")
        for j in range(n):
            sp = ls[j]
            ctx.check(hasattr(sp, "toarray"), "sparse_mode_returns_dense", desc)
            ctx.check(isinstance(dres[1][j], np.ndarray), "dense_mode_does_not_return_dense_logits",
                      lambda: "line %d: %s; " % (j, type(dres[1][j]).__name__) + desc())
            dd = np.asarray(dres[1][j], dtype=np.float32)
            sd = sp.toarray()
            ctx.check(sd.shape == dd.shape, "sparse_shape", desc)
            x = dd.astype(np.float64)
            p = np.exp(x - x.max(axis=1, keepdims=True))
            p /= p.sum(axis=1, keepdims=True)
            must = p >= 1.001e-4
            mustnot = p <= 0.999e-4
            ctx.check(np.array_equal(sd[must], dd[must]), "sparse_drops_or_changes_relevant_logit",
                      lambda: "line %d; " % j + desc())
            ctx.check(np.all(sd[mustnot] == 0), "sparse_keeps_irrelevant_logit", lambda: "line %d; " % j + desc())
            if must.any() and mustnot.any():
                ctx.event("sparsity_both_sides")
    # ---- PageOCR ------------------------------------------------------------
    if n and mode == "sparse":
        from pero_ocr.core.layout import PageLayout, RegionLayout, TextLine
        from pero_ocr.document_ocr.page_parser import PageOCR
        ocr = object.__new__(PageOCR)
        ocr.ocr_engine = eng
        pl = PageLayout(id="p", page_size=(100, 100))
        regs = [RegionLayout("r%d" % k, np.zeros((4, 2))) for k in range(2)]
        # line ids: unique on the page, numbered inside every region (the same ids in both regions), or missing
        scheme = ("page", "region", "none")[(n + len(case["perm"]) + case["C"]) % 3]
        for j, im in enumerate(imgs):
            tl = TextLine(id={"page": "l%d" % j, "region": "l%d" % (j // 2), "none": None}[scheme], crop=im.copy())
            tl.verif_pos = j
            regs[j % 2].lines.append(tl)
        pl.regions = regs
        ctx.event("page_ocr_line_ids:" + scheme)
        with contextlib.redirect_stdout(io.StringIO()):
            ctx.must("page_ocr_raises", ocr.process_page, None, pl)
        for line in pl.lines_iterator():
            j = line.verif_pos
            ctx.check(line.transcription == ts[j] and list(line.logit_coords) == list(cs[j]) and line.characters == eng.characters
                      and np.array_equal(window_rows(line.logits, line.logit_coords, mode), window_rows(ls[j], cs[j], mode)),
                      "page_ocr_result_on_wrong_line",
                      lambda: "line %d (id %r) got %r expected %r; " % (j, line.id, line.transcription, ts[j]) + desc())
    # the caller's crop arrays re-filled with other lines (same array objects, new content): results follow the content
    if 0 < n <= 12:
        kw = dict(sparse_logits=mode in ("sparse", "tight"), tight_crop_logits=mode == "tight", no_logits=mode == "nologits")
        held = [im.copy() for im in imgs]
        with contextlib.redirect_stdout(io.StringIO()):
            ctx.must("process_lines_raises", eng.process_lines, held, **kw)
            for h_, im in zip(held, imgs):
                h_[...] = im[:, ::-1]
            second = ctx.must("process_lines_raises", eng.process_lines, held, **kw)
        mirrored = ctx.must("process_lines_raises", run, eng, [np.ascontiguousarray(im[:, ::-1]) for im in imgs], mode)
        ctx.check(list(second[0]) == list(mirrored[0]), "result_for_refilled_crop_arrays_is_that_of_their_earlier_content",
                  lambda: "got %r, the new content gives %r; " % (list(second[0]), list(mirrored[0])) + desc())
    # the padding is a plain attribute of the engine: changed on the live engine it must act like the same value on an engine
    # that has never been used with another one
    if 0 < n <= 12 and blur == 0:
        from vlib.stubs import make_pytorch_engine
        old_pad = eng.line_padding_px
        eng.line_padding_px = 16
        try:
            live = ctx.must("process_lines_raises", run, eng, imgs, mode)
        finally:
            eng.line_padding_px = old_pad
        with contextlib.redirect_stdout(io.StringIO()):
            virgin = make_pytorch_engine(CHARS[:C - 1], height_for(C), 0)
        virgin.batch_size, virgin.max_input_horizontal_pixels, virgin.line_padding_px = bs, 480 * bs, 16
        want_p = ctx.must("process_lines_raises", run, virgin, imgs, mode)
        lst = lambda x: None if x is None else list(x)
        ctx.check(list(live[0]) == list(want_p[0]) and [lst(x) for x in live[2]] == [lst(x) for x in want_p[2]],
                  "padding_changed_on_a_live_engine_acts_differently",
                  lambda: "texts %r / %r windows %r / %r; " % (list(live[0]), list(want_p[0]), list(live[2]), list(want_p[2])) + desc())
    # the logits handed back by the first call are still what they were after all the later calls of the same engine
    for j in range(min(n, len(ls))):
        if snap[j] is not None and ls[j] is not None:
            now = dense_of(ls[j])
            ctx.check(now.shape == snap[j].shape and np.array_equal(now, snap[j]), "logits_of_an_earlier_call_changed_by_later_calls",
                      lambda: "line %d; " % j + desc())
    widths = [im.shape[1] for im in imgs]
    if n >= 3 and len(set(widths)) >= 2 and len(set(ts)) >= 2 and n_batches(widths, limit) >= 2:
        ctx.nontrivial(repr(case))
    if len(widths) != len(set(widths)):
        ctx.event("equal_width_lines")


def cmp_result(ctx, kind, a, b, mode, j, desc, only_window=False):
    ta, la, ca = a
    tb, lb, cb = b
    ctx.check(ta == tb, kind, lambda: "line %d: transcription %r vs %r; " % (j, ta, tb) + desc())
    if mode == "nologits":
        return
    ctx.check(list(ca) == list(cb), kind, lambda: "line %d: window %r vs %r; " % (j, ca, cb) + desc())
    wa = window_rows(la, ca, mode)
    wb = window_rows(lb, cb, mode)
    m = min(len(wa), len(wb)) if only_window else None
    ctx.check((wa.shape == wb.shape or only_window) and np.array_equal(wa[:m], wb[:m]), kind,
              lambda: "line %d: logits inside the frame window differ (shapes %r %r); " % (j, wa.shape, wb.shape) + desc())


# ---------------------------------------------------------------- models with an embedding input (engine.embed_id)
_EMB = {}


def emb_engine(C, embed_id):
    import torch
    from pero_ocr.ocr_engine.pytorch_ocr_engine import PytorchEngineLineOCR
    from vlib.stubs import engine_json
    with contextlib.redirect_stdout(io.StringIO()):
        return PytorchEngineLineOCR(engine_json(CHARS[:C - 1], H, 0, None, 6, embed_id), torch.device("cpu"), batch_size=4)


def strat_emb():
    from hypothesis import strategies as st
    crop = st.fixed_dictionaries(dict(T=st.integers(1, 20), tail=st.integers(0, 3), seed=st.integers(0, 2 ** 31 - 1), style=st.just("graded")))
    return st.fixed_dictionaries(dict(C=st.integers(3, 6), crops=st.lists(crop, min_size=1, max_size=6),
                                      ids=st.lists(st.integers(0, 5), min_size=2, max_size=4), no_logits=st.booleans()))


def body_emb(ctx, case):
    """models with a style embedding: user_scripts/select_embed_id.py changes engine.embed_id between process_lines
    calls on one engine; every call must give what an engine configured with that id gives."""
    C = case["C"]
    imgs = [make_crop(s, C)[0] for s in case["crops"]]
    key = ("live", C)
    if key not in _EMB:
        _EMB[key] = emb_engine(C, 0)
    live = _EMB[key]
    desc = lambda: "case=%r" % (case,)
    seen = set()
    for e in case["ids"]:
        if ("ref", C, e) not in _EMB:
            _EMB[("ref", C, e)] = emb_engine(C, e)
        ref = _EMB[("ref", C, e)]
        live.embed_id = e
        with contextlib.redirect_stdout(io.StringIO()):
            got = ctx.must("process_lines_raises", live.process_lines, [im.copy() for im in imgs], True, False, case["no_logits"])
            want = ctx.must("process_lines_raises", ref.process_lines, [im.copy() for im in imgs], True, False, case["no_logits"])
        ctx.check(list(got[0]) == list(want[0]), "result_depends_on_earlier_embedding_id",
                  lambda: "embed_id %d after %r: %r, engine configured with that id: %r; " % (e, sorted(seen), got[0], want[0]) + desc())
        if not case["no_logits"]:
            ctx.check(all((a != b).nnz == 0 for a, b in zip(got[1], want[1])), "logits_depend_on_earlier_embedding_id", desc)
        seen.add(e)
    if len(set(case["ids"])) >= 2:
        ctx.nontrivial(("emb", repr(case)))


# ---------------------------------------------------------------- engines that split long lines (transformer mode)
def strat_split():
    from checks.c15_stitching import strat_lines
    return strat_lines()


def body_split(ctx, case):
    """BaseEngineLineOCR.process_lines with model_type 'transformer' and max_line_width: lines wider than the limit are
    recognised window by window and stitched. Position independence is the same promise as for CTC engines."""
    from checks.c15_stitching import make_engine, paint
    lines_classes, mlw, bs, trims = case
    imgs = []
    for cl, tr in zip(lines_classes, trims):
        im = paint(cl)
        if tr and im.shape[1] > tr:
            im = im[:, :im.shape[1] - tr]
        imgs.append(im)
    no_logits = trims[-1] % 2 == 1
    desc = lambda: "classes=%r max_line_width=%d batch_size=%d no_logits=%r" % (lines_classes, mlw, bs, no_logits)

    def run(images, batch_size):
        eng = make_engine(mlw, batch_size, [])
        with contextlib.redirect_stdout(io.StringIO()):
            return eng.process_lines([im.copy() for im in images], False, False, no_logits)
    ts, ls, cs = ctx.must("process_lines_raises", run, imgs, bs)
    ctx.check(len(ts) == len(imgs) == len(ls) == len(cs), "result_count", desc)
    n = len(imgs)
    rev = ctx.must("process_lines_raises", run, imgs[::-1], bs)
    other = ctx.must("process_lines_raises", run, imgs, 1 + bs % 4)
    for i in range(n):
        alone = ctx.must("process_lines_raises", run, [imgs[i]], bs)
        info = lambda: "line %d (width %d): in the list %r, alone %r, list reversed %r, other batch size %r; " % (
            i, imgs[i].shape[1], ts[i], alone[0][0], rev[0][n - 1 - i], other[0][i]) + desc()
        ctx.check(ts[i] == alone[0][0], "depends_on_batch_companions", info)
        ctx.check(ts[i] == rev[0][n - 1 - i], "depends_on_list_order", info)
        ctx.check(ts[i] == other[0][i], "depends_on_batch_size", info)
        if no_logits:
            ctx.check(ls[i] is None, "logits_returned_in_no_logits_mode", info)
        else:
            ctx.check(ls[i] is not None and alone[1][0] is not None and ls[i].shape == alone[1][0].shape
                      and np.array_equal(ls[i][:, 1], alone[1][0][:, 1]), "logit_rows_depend_on_batch_companions", info)
            ctx.check(list(cs[i]) == list(alone[2][0]), "window_depends_on_batch_companions", info)
    ctx.event("no_logits" if no_logits else "dense_logits")
    widths = [im.shape[1] for im in imgs]
    if n >= 2 and any(w > mlw for w in widths) and any(w <= mlw for w in widths):
        ctx.event("split_and_unsplit_lines_together")
        ctx.nontrivial(("split", repr(case)))


# ---------------------------------------------------------------- an engine that has survived a failed call
def strat_fault():
    from hypothesis import strategies as st
    crop = lambda lo, hi: st.fixed_dictionaries(dict(T=st.integers(lo, hi), tail=st.integers(0, 3), seed=st.integers(0, 2 ** 31 - 1),
                                                     style=st.sampled_from(["onehot", "graded"])))

    @st.composite
    def case(draw):
        bs = draw(st.sampled_from([2, 4, 8]))
        limit = 480 * bs
        first = draw(st.lists(crop(1, 40), min_size=2, max_size=5))
        # afterwards: a line wider than half the engine maximum but inside it, next to ordinary ones
        longT = draw(st.integers(limit // 8 + 4, (limit - PAD) // 4 - 1))
        second = draw(st.lists(crop(1, 60), min_size=0, max_size=4)) + [dict(T=longT, tail=draw(st.integers(0, 3)), seed=draw(st.integers(0, 2 ** 31 - 1)), style="onehot")]
        second = [second[i] for i in draw(st.permutations(list(range(len(second)))))]
        return dict(C=draw(st.integers(3, 8)), bs=bs, first=first, second=second,
                    fault=draw(st.sampled_from(["out_of_memory", "out_of_memory", "runtime_error", "memory_error"])),
                    mode=draw(st.sampled_from(["sparse", "dense", "nologits"])))
    return case()


class FaultyOnce:
    """the network fails once (on the first batch of at least two images) and works again afterwards"""

    def __init__(self, model, fault):
        self.model, self.fault, self.armed = model, fault, True

    def __call__(self, *a, **kw):
        if self.armed and a[0].shape[0] >= 2:
            self.armed = False
            if self.fault == "out_of_memory":
                raise RuntimeError("CUDA out of memory. Tried to allocate 2.00 GiB (GPU 0; 7.79 GiB total capacity)")
            if self.fault == "memory_error":
                raise MemoryError("std::bad_alloc")
            raise RuntimeError("cuDNN error: CUDNN_STATUS_EXECUTION_FAILED")
        return self.model(*a, **kw)


def body_fault(ctx, case):
    """A call during which the network failed (transient device fault) may fail or recover - but the engine object that is
    used again afterwards must treat the following lists exactly like an engine that never saw the fault."""
    from vlib.stubs import make_pytorch_engine
    C, bs, mode = case["C"], case["bs"], case["mode"]
    desc = lambda: "case=%r" % (case,)
    with contextlib.redirect_stdout(io.StringIO()):
        eng = make_pytorch_engine(CHARS[:C - 1], height_for(C), 0, batch_size=bs)
        fresh = make_pytorch_engine(CHARS[:C - 1], height_for(C), 0, batch_size=bs)
    good = eng.model
    eng.model = FaultyOnce(good, case["fault"])
    first = [make_crop(s_, C)[0] for s_ in case["first"]]
    try:
        run(eng, first, mode)
        ctx.event("faulty_call_recovered")
    except BaseException:  # noqa: BLE001 - failing is allowed
        ctx.event("faulty_call_failed")
    injected = not eng.model.armed
    eng.model = good
    if not injected:
        ctx.event("fault_not_injected(no batch of two images reached the network)")
        return
    made = [make_crop(s_, C) for s_ in case["second"]]
    imgs = [m[0] for m in made]
    got = ctx.must("process_lines_raises", run, eng, imgs, mode)
    want = ctx.must("process_lines_raises", run, fresh, imgs, mode)
    for i, (im, path) in enumerate(made):
        info = lambda: "line %d width %d: engine after the fault %r window %r, engine without history %r window %r; " % (
            i, im.shape[1], got[0][i], got[2][i], want[0][i], want[2][i]) + desc()
        ctx.check(got[0][i] == want[0][i], "result_after_a_failed_call_differs_from_a_fresh_engines", info)
        lst = lambda x: None if x is None else list(x)
        ctx.check(lst(got[2][i]) == lst(want[2][i]), "window_after_a_failed_call_differs_from_a_fresh_engines", info)
        if im.shape[1] + PAD <= 480 * bs:
            ctx.check(got[0][i] == ref_collapse(path, C - 1), "transcription_not_of_this_image", info)
        if mode != "nologits":
            ctx.check(got[1][i] is not None and want[1][i] is not None and np.array_equal(dense_of(got[1][i]), dense_of(want[1][i])),
                      "logits_after_a_failed_call_differ_from_a_fresh_engines", info)
    ctx.event("fault:" + case["fault"])
    ctx.nontrivial(("fault", repr(case)))


UNITS = [
    Unit("process_lines", "given", body=body, strategy=strat, quick=250, thorough=5000, shards_quick=8),
    Unit("split_lines", "given", body=body_split, strategy=strat_split, quick=300, thorough=4000),
    Unit("embedding_id", "given", body=body_emb, strategy=strat_emb, quick=200, thorough=3000),
    Unit("after_fault", "given", body=body_fault, strategy=strat_fault, quick=120, thorough=1500),
]
