"""C13 - edit distance, alignments and error summaries are exact and consistent."""
import itertools

import numpy as np

from vlib.core import Unit

PROPERTY = "C13"
LEVEL = "exploration"
RULE = ("Pairs of sequences (length 0-9; alphabets {a,b}, {a,b,c}, 60 Unicode letters, small ints, mixed "
        "str/int), drawn independently or as edits of one another, with operation costs 1..4; judged against a "
        "plain Wagner-Fischer table written for the check (substring optimum = min over all substrings of the "
        "longer sequence). Non-trivial: both sequences non-empty, not equal, distance >= 1; distinct by "
        "(unit, sequences, costs). The thorough tier adds a complete enumeration of short pairs.")
ASSUMPTIONS = ["sequence elements are hashable scalars comparable with ==; str elements contain no NUL",
               "for equal lengths either sequence may serve as the container of the substring variants"]

UNI = [chr(c) for c in list(range(0x3b1, 0x3b1 + 20)) + list(range(0x430, 0x430 + 20)) + list(range(0x5d0, 0x5d0 + 10))
       + [0x1F600 + i for i in range(10)]]


# ---------------------------------------------------------------- oracle
def wf(a, b, sub=1, ins=1, dele=1):
    """cost of turning a (source) into b (target): delete from a, insert from b, substitute."""
    n, m = len(a), len(b)
    d = [[0] * (m + 1) for _ in range(n + 1)]
    for j in range(1, m + 1):
        d[0][j] = j * ins
    for i in range(1, n + 1):
        d[i][0] = i * dele
        for j in range(1, m + 1):
            d[i][j] = min(d[i - 1][j] + dele, d[i][j - 1] + ins,
                          d[i - 1][j - 1] + (0 if same(a[i - 1], b[j - 1]) else sub))
    return d[n][m]


def same(x, y):
    return type(x) is type(y) and x == y if isinstance(x, (str, int)) and isinstance(y, (str, int)) else x == y


def substring_opt(container, other):
    best = None
    n = len(container)
    for i in range(n + 1):
        for j in range(i, n + 1):
            c = wf(container[i:j], other)
            if best is None or c < best:
                best = c
    return best


def pairs_cost(pairs, sub, ins, dele):
    c = 0
    for s, t in pairs:
        if s is None and t is None:
            return None
        if s is None:
            c += ins
        elif t is None:
            c += dele
        elif not eq_out(s, t):
            c += sub
    return c


def eq_out(x, y):
    """equality of two returned symbols (may be numpy scalars)."""
    return plain(x) == plain(y) and type(plain(x)) is type(plain(y))


def plain(x):
    if hasattr(x, "item"):
        return x.item()
    return x


def project(pairs, side):
    return [plain(p[side]) for p in pairs if p[side] is not None]


def typed_eq_list(xs, ys):
    return len(xs) == len(ys) and all(type(x) is type(y) and x == y for x, y in zip(xs, ys))


# ---------------------------------------------------------------- generators
def seq_pairs():
    from hypothesis import strategies as st
    alph = st.sampled_from([
        list("ab"), list("abc"), UNI, list(range(5)), [0, 1, "0", "1", "a"], ["a", "b", 1, 2, 10, "10"],
        ["ab", "a", "b", "abc"],
        [-1, -2, 0, 1, 2 ** 61 - 1, 2 ** 61],       # class indices incl. the 'nothing' markers -1/-2 and very large ids
    ])

    @st.composite
    def pair(draw):
        al = draw(alph)
        sym = st.sampled_from(al)
        if draw(st.integers(0, 11)) == 0:
            # text-line sized sequences
            rs = __import__("numpy").random.RandomState(draw(st.integers(0, 2 ** 31 - 1)))
            a = [al[int(i)] for i in rs.randint(0, len(al), size=int(rs.randint(30, 90)))]
            b = list(a)
            for _ in range(int(rs.randint(0, 12))):
                pos = int(rs.randint(0, len(b) + 1))
                op = int(rs.randint(0, 3))
                if op == 0:
                    b.insert(pos, al[int(rs.randint(0, len(al)))])
                elif op == 1 and b:
                    del b[min(pos, len(b) - 1)]
                elif b:
                    b[min(pos, len(b) - 1)] = al[int(rs.randint(0, len(al)))]
            if rs.randint(0, 2):
                b = b[int(rs.randint(0, 10)):len(b) - int(rs.randint(0, 10))]
            if rs.randint(0, 3) == 0:
                # displaced copies: one sequence has a long foreign head, the other a long foreign tail
                head = [al[int(i)] for i in rs.randint(0, len(al), size=int(rs.randint(12, 40)))]
                tail = [al[int(i)] for i in rs.randint(0, len(al), size=int(rs.randint(12, 40)))]
                a, b = head + a, b + tail
            return (a, b) if rs.randint(0, 2) else (b, a)
        a = draw(st.lists(sym, max_size=9))
        mode = draw(st.integers(0, 3))
        if mode == 0:
            b = draw(st.lists(sym, max_size=9))
        else:
            # b = edits of a (substring, insertion before first match, substitutions)
            b = list(a)
            if mode == 2 and a:
                i = draw(st.integers(0, len(a)))
                j = draw(st.integers(i, len(a)))
                b = b[i:j]
            for _ in range(draw(st.integers(0, 3))):
                op = draw(st.integers(0, 2))
                pos = draw(st.integers(0, len(b)))
                if op == 0:
                    b.insert(pos, draw(sym))
                elif op == 1 and b:
                    del b[min(pos, len(b) - 1)]
                elif b:
                    b[min(pos, len(b) - 1)] = draw(sym)
            b = b[:9]
        if draw(st.booleans()):
            a, b = b, a
        return a, b
    return pair()


def strat_distance():
    from hypothesis import strategies as st
    c = st.integers(1, 4)
    return st.tuples(seq_pairs(), st.tuples(c, c, c) | st.just((1, 1, 1)))


def strat_substring():
    return seq_pairs()


def strat_summary():
    from hypothesis import strategies as st
    sym = st.sampled_from(list("abc")) | st.sampled_from(UNI[:6])
    one = st.tuples(st.lists(sym, max_size=7), st.lists(sym, max_size=7))
    ints = st.tuples(st.lists(st.integers(0, 3), max_size=7), st.lists(st.integers(0, 3), max_size=7))
    return st.lists(one | ints, min_size=1, max_size=5)


def kind_of(a, b):
    ts = {type(x).__name__ for x in a + b}
    return "mixed" if len(ts) > 1 else (next(iter(ts)) if ts else "empty")


# ---------------------------------------------------------------- bodies
def body_distance(ctx, case):
    from pero_ocr import sequence_alignment as sa
    (a, b), (sub, ins, dele) = case
    ref = wf(a, b, sub, ins, dele)
    ctx.event("types:" + kind_of(a, b))
    ctx.event("unit_costs" if (sub, ins, dele) == (1, 1, 1) else "weighted")
    if a and b and ref >= 1 and not typed_eq_list(a, b):
        ctx.nontrivial(("distance", a, b, sub, ins, dele))
    if not a or not b:
        ctx.event("an_empty_sequence")
    a_in, b_in = list(a), list(b)
    d = ctx.must("distance_raises", sa.levenshtein_distance, a_in, b_in, sub, ins, dele)
    ctx.check(typed_eq_list(a_in, a) and typed_eq_list(b_in, b), "distance_modifies_its_input", lambda: "a=%r b=%r" % (a_in, b_in))
    ctx.check(plain(d) == ref, "distance_wrong", lambda: "a=%r b=%r costs=%r got %r want %r" % (a, b, (sub, ins, dele), d, ref))

    cont = tuple if (len(a) + len(b)) % 2 else list       # tuples are sequences too
    al = ctx.must("alignment_raises", sa.levenshtein_alignment, cont(a), cont(b), sub, ins, dele)
    ctx.check(typed_eq_list(project(al, 0), a) and typed_eq_list(project(al, 1), b), "alignment_projection",
              lambda: "a=%r b=%r alignment=%r" % (a, b, al))
    c = pairs_cost(al, sub, ins, dele)
    ctx.check(c == ref, "alignment_cost", lambda: "a=%r b=%r costs=%r alignment=%r costs %r, distance %r" % (
        a, b, (sub, ins, dele), al, c, ref))

    path = ctx.must("path_raises", sa.levenshtein_alignment_path, list(a), list(b), sub, ins, dele)
    path = [plain(p) for p in path]
    ctx.check(all(p in (-1, 0, 1) for p in path), "path_values", lambda: "%r" % (path,))
    ctx.check(sum(1 for p in path if p >= 0) == len(a) and sum(1 for p in path if p <= 0) == len(b), "path_counts",
              lambda: "a=%r b=%r path=%r" % (a, b, path))
    ctx.check(len(path) == len(al), "path_length", lambda: "a=%r b=%r path=%r alignment=%r" % (a, b, path, al))
    i = j = 0
    c = 0
    for p in path:
        if p == 1:
            c += dele
            i += 1
        elif p == -1:
            c += ins
            j += 1
        else:
            c += 0 if same(a[i], b[j]) else sub
            i += 1
            j += 1
    ctx.check(c == ref, "path_cost", lambda: "a=%r b=%r costs=%r path=%r costs %r want %r" % (a, b, (sub, ins, dele), path, c, ref))


def strip_free(pairs, container_side):
    other = 1 - container_side
    lo, hi = 0, len(pairs)
    while lo < hi and pairs[lo][other] is None:
        lo += 1
    while hi > lo and pairs[hi - 1][other] is None:
        hi -= 1
    return pairs[lo:hi]


def body_substring(ctx, case):
    from pero_ocr import sequence_alignment as sa
    a, b = case
    if len(a) > 45 or len(b) > 45:
        a, b = a[:45], b[:45]        # the brute-force substring optimum is O(n^2 * nm)
    ctx.event("types:" + kind_of(a, b))
    if len(a) > len(b):
        opts = {substring_opt(a, b): 0}
    elif len(b) > len(a):
        opts = {substring_opt(b, a): 1}
    else:
        opts = {substring_opt(a, b): 0}
        opts.setdefault(substring_opt(b, a), 1)
        ctx.event("equal_length")
    if a and b and min(opts) >= 1:
        ctx.nontrivial(("substring", a, b))
    if not a and not b:
        ctx.event("both_empty")
    d = ctx.must("substring_distance_raises", sa.levenshtein_distance_substring, list(a), list(b))
    d = plain(d)
    ctx.check(d in opts, "substring_distance_wrong", lambda: "a=%r b=%r got %r want %r" % (a, b, d, sorted(opts)))
    al = ctx.must("substring_alignment_raises", sa.levenshtein_alignment_substring, list(a), list(b))
    ctx.check(typed_eq_list(project(al, 0), a) and typed_eq_list(project(al, 1), b), "substring_alignment_projection",
              lambda: "a=%r b=%r alignment=%r" % (a, b, al))
    # the documented empty_symbol option only changes how a gap is written (all three alignment functions)
    gap = ("<gap>",)
    for fname in ("levenshtein_alignment_substring", "levenshtein_alignment", "levenshtein_alignment_path"):
        unmarked = ctx.must("alignment_raises", getattr(sa, fname), list(a), list(b))
        marked = ctx.must("alignment_raises", getattr(sa, fname), list(a), list(b), 1, 1, 1, gap)
        if fname == "levenshtein_alignment_path":
            ctx.check(list(marked) == list(unmarked), "empty_symbol_changes_the_alignment", lambda: "%s: %r vs %r" % (fname, marked, unmarked))
        else:
            want_marked = [tuple(gap if x is None else x for x in pair) for pair in unmarked]
            ctx.check([tuple(pair) for pair in marked] == want_marked, "empty_symbol_changes_the_alignment",
                      lambda: "%s with empty_symbol: %r, default %r; a=%r b=%r" % (fname, marked, unmarked, a, b))
    costs = set()
    for opt, side in opts.items():
        core = strip_free(al, side)
        costs.add((pairs_cost(core, 1, 1, 1), opt))
    ctx.check(any(c == o for c, o in costs), "substring_alignment_cost",
              lambda: "a=%r b=%r alignment=%r (cost, optimum) per admissible container=%r" % (a, b, al, sorted(costs)))


def summary_fields(s):
    be = s.ending_errors
    return dict(lines=s.nb_lines_summarized, ref_len=s.ref_len, err=plain(s.nb_errors), sub=plain(s.nb_subs),
                ins=plain(s.nb_inss), dele=plain(s.nb_dels),
                conf={(plain(k), plain(k2)): v for k, c in s.confusions.items() for k2, v in c.items() if v},
                ending=(int(be.correct), int(be.pure_deletions), int(be.mixed_deletions), int(be.pure_insertions),
                        int(be.mixed_insertions), int(be.pure_substitutions)))


def body_summary(ctx, case):
    from pero_ocr.error_summary import ErrorsSummary
    sums = []
    nt = False
    for ref, hyp in case:
        dist = wf(ref, hyp)
        s = ctx.must("from_lists_raises", ErrorsSummary.from_lists, list(ref), list(hyp))
        f = summary_fields(s)
        ctx.check(f["err"] == dist, "summary_nb_errors", lambda: "ref=%r hyp=%r nb_errors=%r distance=%r" % (ref, hyp, f["err"], dist))
        ctx.check(f["sub"] + f["ins"] + f["dele"] == dist and min(f["sub"], f["ins"], f["dele"]) >= 0, "summary_sid",
                  lambda: "ref=%r hyp=%r sub/ins/del=%r/%r/%r distance=%r" % (ref, hyp, f["sub"], f["ins"], f["dele"], dist))
        ctx.check(f["ref_len"] == len(ref) and f["lines"] == 1, "summary_ref_len", lambda: "ref=%r got %r" % (ref, f))
        # insertions/deletions are forced by the length difference modulo substitutions
        ctx.check(f["ins"] - f["dele"] == len(hyp) - len(ref), "summary_ins_del_balance",
                  lambda: "ref=%r hyp=%r %r" % (ref, hyp, f))
        ctx.check(sum(f["conf"].values()) == len(ref) + f["ins"], "summary_confusions_total", lambda: "ref=%r hyp=%r %r" % (ref, hyp, f))
        sums.append(s)
        if dist >= 1 and ref and hyp:
            nt = True
    if nt and len(case) >= 2:
        ctx.nontrivial(("summary", case))

    def add(fs):
        out = dict(lines=0, ref_len=0, err=0, sub=0, ins=0, dele=0, conf={}, ending=(0,) * 6)
        for f in fs:
            for k in ("lines", "ref_len", "err", "sub", "ins", "dele"):
                out[k] += f[k]
            for k, v in f["conf"].items():
                out["conf"][k] = out["conf"].get(k, 0) + v
            out["ending"] = tuple(x + y for x, y in zip(out["ending"], f["ending"]))
        return out
    singles = [summary_fields(s) for s in sums]
    want = add(singles)
    agg = ctx.must("aggregate_raises", ErrorsSummary.aggregate, sums)
    got = summary_fields(agg)
    ctx.check(got == want, "aggregate_not_sum", lambda: "case=%r got %r want %r" % (case, got, want))
    # any iterable of summaries (callers pass generator expressions and map objects as well as lists)
    for label, it in (("generator", (x for x in sums)), ("tuple", tuple(sums)), ("map", map(lambda x: x, sums))):
        got_it = summary_fields(ctx.must("aggregate_raises", ErrorsSummary.aggregate, it))
        ctx.check(got_it == want, "aggregate_depends_on_container_type", lambda: "%s: got %r want %r; case=%r" % (label, got_it, want, case))
    # inputs not modified by aggregation
    ctx.check([summary_fields(s) for s in sums] == singles, "aggregate_mutates_inputs", lambda: "case=%r" % (case,))
    if len(sums) >= 3:
        k = len(sums) // 2
        left = ErrorsSummary.aggregate([ErrorsSummary.aggregate(sums[:k]), ErrorsSummary.aggregate(sums[k:])])
        ctx.check(summary_fields(left) == want, "aggregate_not_associative", lambda: "case=%r" % (case,))
        ctx.event("associativity_checked")
    if want["ref_len"] > 0:
        ctx.check(abs(agg.error_rate - want["err"] / want["ref_len"]) < 1e-12, "aggregate_error_rate", lambda: "case=%r" % (case,))


# ---------------------------------------------------------------- corpus-sized aggregation
def strat_corpus():
    from hypothesis import strategies as st
    return st.tuples(st.sampled_from(["many_short", "many_short", "many_short", "long_lines"]), st.integers(300, 900), st.integers(0, 2 ** 31 - 1))


def body_corpus(ctx, case):
    """error summaries of a whole test set (hundreds of lines; totals beyond 255 and, for long lines, beyond 65535) aggregated in
    one call, in two halves and line by line: plain addition of the per-line numbers"""
    from pero_ocr.error_summary import ErrorsSummary
    kind, n, seed = case
    rs = np.random.RandomState(seed)
    pairs = []
    if kind == "many_short":
        for _ in range(n):
            pairs.append(("".join(rs.choice(list("abc"), size=rs.randint(0, 7))), "".join(rs.choice(list("abc"), size=rs.randint(0, 7)))))
        dists = [wf(list(a), list(b)) for a, b in pairs]
    else:
        n = 640 + n % 120
        for _ in range(n):      # reference and hypothesis share no symbol: the distance is the longer length
            pairs.append(("".join(rs.choice(list("abcde"), size=rs.randint(90, 111))), "".join(rs.choice(list("vwxyz"), size=rs.randint(90, 111)))))
        dists = [max(len(a), len(b)) for a, b in pairs]
    sums = [ctx.must("from_lists_raises", ErrorsSummary.from_lists, list(a), list(b)) for a, b in pairs]
    desc = lambda: "kind=%s lines=%d seed=%d" % (kind, n, seed)
    for (a, b), d, s_ in zip(pairs, dists, sums):
        ctx.check(int(s_.nb_errors) == d, "summary_nb_errors", lambda: "ref=%r hyp=%r nb_errors=%r distance=%r; " % (a, b, s_.nb_errors, d) + desc())
    want = dict(lines=n, ref_len=sum(len(a) for a, _ in pairs), err=sum(dists))
    halves = ErrorsSummary.aggregate([ErrorsSummary.aggregate(sums[:n // 2]), ErrorsSummary.aggregate(sums[n // 2:])])
    running = sums[0]
    for s_ in sums[1:]:
        running = ErrorsSummary.aggregate([running, s_])
    for label, agg in (("one call", ctx.must("aggregate_raises", ErrorsSummary.aggregate, sums)), ("two halves", halves), ("line by line", running)):
        got = dict(lines=int(agg.nb_lines_summarized), ref_len=int(agg.ref_len), err=int(agg.nb_errors))
        ctx.check(got == want, "aggregate_not_sum", lambda: "%s: got %r want %r; " % (label, got, want) + desc())
        sid = int(agg.nb_subs) + int(agg.nb_inss) + int(agg.nb_dels)
        ctx.check(sid == want["err"], "summary_sid", lambda: "%s: sub+ins+del=%r errors=%r; " % (label, sid, want["err"]) + desc())
        ctx.check(abs(agg.error_rate - want["err"] / max(1, want["ref_len"])) < 1e-9 or want["ref_len"] == 0, "aggregate_error_rate", desc)
    ctx.event("total_errors>65535" if want["err"] > 65535 else ("total_errors>255" if want["err"] > 255 else "small_total"))
    ctx.nontrivial(("corpus", case))


# ---------------------------------------------------------------- enumeration
def grid_cases(tier):
    n = 3 if tier == "quick" else 4
    out = []
    for al_a, al_b in (("ab", "ab"), ("ab", "abc")):
        seqs_a = [list(p) for k in range(n + 1) for p in itertools.product(al_a, repeat=k)]
        seqs_b = [list(p) for k in range(n + 1) for p in itertools.product(al_b, repeat=k)]
        for a in seqs_a:
            for b in seqs_b:
                out.append(("sub", a, b))
                out.append(("dist", a, b, (1, 1, 1)))
    seqs = [list(p) for k in range(4) for p in itertools.product("ab", repeat=k)]
    costs = list(itertools.product((1, 2, 3, 4), repeat=3))
    if tier == "quick":
        costs = [c for c in costs if max(c) <= 3 and c != (1, 1, 1)][::2]
    for a in seqs:
        for b in seqs:
            for c in costs:
                out.append(("dist", a, b, c))
    return out


def body_grid(ctx, case):
    if case[0] == "sub":
        body_substring(ctx, (case[1], case[2]))
    else:
        body_distance(ctx, ((case[1], case[2]), case[3]))


UNITS = [
    Unit("distance", "given", body=body_distance, strategy=strat_distance, quick=2400, thorough=60000),
    Unit("substring", "given", body=body_substring, strategy=strat_substring, quick=1600, thorough=40000),
    Unit("summary", "given", body=body_summary, strategy=strat_summary, quick=800, thorough=16000),
    Unit("corpus", "given", body=body_corpus, strategy=strat_corpus, quick=24, thorough=300),
    Unit("grid", "enum", body=body_grid, cases=grid_cases, exhaustive=True),
]
