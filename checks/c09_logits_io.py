"""C09 - saved logits restore exactly; saved artefacts suffice to rebuild outputs."""
import os
import pickle
import tempfile

import numpy as np
from scipy import sparse

from vlib.core import Unit

PROPERTY = "C09"
LEVEL = "exploration"
RULE = ("Pages of 0-6 lines with unique ids holding sparse float32 CSC matrices of drawn shape (0-30 x 2-12), density "
        "and values (no stored 0.0), character tables, frame windows [a,b] or [None,None]; a second layout whose ids "
        "are the same / a subset / a superset / disjoint and whose lines hold sentinel data; path and bytes variants; "
        "one component removed from a drawn line with missing_line_logits_ok off/on; legacy files. Oracle: dictionary "
        "model id -> (matrix, table, window). Dense reconstruction against the stored entries and the floor. "
        "End-to-end: page -> (PAGE XML string, logits bytes) -> page', greedy and beam decoding and ALTO words equal. "
        "Non-trivial: >= 2 lines, an id present on only one side, a matrix with stored and pruned entries.")
ASSUMPTIONS = ["line ids equal to the file format's own keys ('line_characters', 'logit_coords') are excluded (counted)",
               "with missing_line_logits_ok=True nothing is asserted about the incomplete line itself"]

RESERVED = ("line_characters", "logit_coords")


def strat_io():
    from hypothesis import strategies as st
    ident = st.sampled_from(["l1", "l2", "l3", "r1-l001", "r1-l002", "a.b", "x y", "é", "0", "line_characters", "logit_coords"]) \
        | st.text("abc012-_", min_size=1, max_size=5)

    @st.composite
    def mat(draw):
        return dict(T=draw(st.integers(0, 30)) if draw(st.integers(0, 9)) else draw(st.integers(200, 700)), C=draw(st.integers(2, 12)) if draw(st.integers(0, 9)) else draw(st.integers(100, 300)), density=draw(st.sampled_from([0.0, 0.1, 0.4, 1.0])),
                    seed=draw(st.integers(0, 2 ** 31 - 1)),
                    coords=draw(st.one_of(st.just([None, None]), st.tuples(st.integers(0, 5), st.integers(0, 30)).map(list))))

    @st.composite
    def case(draw):
        ids = draw(st.lists(ident, min_size=0, max_size=6, unique=True))
        lines = [(i, draw(mat())) for i in ids]
        rel = draw(st.sampled_from(["same", "subset", "superset", "disjoint", "mixed"]))
        if rel == "same":
            ids2 = list(ids)
        elif rel == "subset":
            ids2 = [i for i in ids if draw(st.booleans())]
        elif rel == "superset":
            ids2 = list(ids) + ["extra-%d" % k for k in range(draw(st.integers(1, 2)))]
        elif rel == "disjoint":
            ids2 = ["other-%d" % k for k in range(draw(st.integers(0, 3)))]
        else:
            ids2 = [i for i in ids if draw(st.booleans())] + ["extra-%d" % k for k in range(draw(st.integers(0, 2)))]
        ids2 = list(draw(st.permutations(ids2)))
        nreg = draw(st.integers(1, 3))
        missing = None
        if ids and draw(st.integers(0, 3)) == 0:
            missing = (draw(st.integers(0, len(ids) - 1)), draw(st.sampled_from(["logits", "characters", "logit_coords"])),
                       draw(st.booleans()))
        return dict(lines=lines, ids2=ids2, nreg=nreg, via=draw(st.sampled_from(["path", "bytes"])), missing=missing,
                    legacy=draw(st.integers(0, 5)) == 0, floor=draw(st.sampled_from([-80, -80, -30, -100.5, 0, 0.0, -1e-3, 5])))
    return case()


def make_matrix(spec):
    rs = np.random.RandomState(spec["seed"])
    T, C = spec["T"], spec["C"]
    d = rs.uniform(-20, 20, size=(T, C)).astype(np.float32)
    # stored entries of tiny magnitude are still stored entries (log-posteriors of confident frames are ~ -1e-9)
    tiny = rs.uniform(size=(T, C)) < 0.15
    d[tiny] = rs.choice(np.asarray([1e-9, -1e-9, 1e-12, -3e-8, 1e-30, -1e-38], dtype=np.float32), size=int(tiny.sum()))
    d[d == 0] = 0.5
    mask = rs.uniform(size=(T, C)) < spec["density"]
    d = d * mask
    fmt = spec["seed"] % 4
    if fmt == 1:
        m = sparse.csr_matrix(d)                      # other sparse formats / dtypes a caller may have stored
    elif fmt == 2:
        d = d.astype(np.float64)
        m = sparse.csc_matrix(d)
    else:
        m = sparse.csc_matrix(d)
    chars = [chr(0x61 + k) for k in range(C - 1)] + ["​"]
    return m, chars, d


def make_layout(ids, nreg, filler):
    from pero_ocr.core.layout import PageLayout, RegionLayout, TextLine
    pl = PageLayout(id="p", page_size=(100, 100))
    regs = [RegionLayout("r%d" % k, np.asarray([[0, 0], [10, 0], [10, 10]])) for k in range(nreg)]
    for n, i in enumerate(ids):
        line = TextLine(id=i, baseline=np.asarray([[0, 0], [5, 0]]), polygon=np.asarray([[0, 0], [5, 0], [5, 5], [0, 5]]), heights=[3, 1])
        filler(line, i)
        regs[n % nreg].lines.append(line)
    pl.regions = regs
    return pl


def same_matrix(a, b):
    if a is None or b is None:
        return a is b
    if a.format != b.format:
        return False
    a, b = sparse.csc_matrix(a), sparse.csc_matrix(b)
    return (a.shape == b.shape and a.dtype == b.dtype and np.array_equal(a.indptr, b.indptr)
            and np.array_equal(a.indices, b.indices) and np.array_equal(a.data, b.data))


def body_io(ctx, case):
    lines = [(i, s) for i, s in case["lines"] if i not in RESERVED]
    n_res = len(case["lines"]) - len(lines)
    if n_res:
        ctx.event("reserved_id_excluded", n_res)
    ids2 = [i for i in case["ids2"] if i not in RESERVED]
    model = {}
    for i, s in lines:
        m, chars, dense = make_matrix(s)
        model[i] = (m, chars, list(s["coords"]), dense)

    def fill1(line, i):
        line.logits, line.characters, line.logit_coords = model[i][0], model[i][1], model[i][2]
    l1 = make_layout([i for i, _ in lines], case["nreg"], fill1)
    missing = case["missing"]
    miss_id = None
    if missing is not None and lines:
        idx, comp, flag = missing
        idx = idx % len(lines)
        miss_id = lines[idx][0]
        for line in l1.lines_iterator():
            if line.id == miss_id:
                setattr(line, comp, None)
    else:
        flag = False
    sentinels = {}

    def fill2(line, i):
        s = (sparse.csc_matrix(np.full((2, 2), 7.0, dtype=np.float32)), ["S", "T"], [97, 98])
        sentinels[i] = s
        line.logits, line.characters, line.logit_coords = s
    l2 = make_layout(ids2, 1 + (case["nreg"] % 2), fill2)
    desc = lambda: "case=%r" % ({k: case[k] for k in ("ids2", "nreg", "via", "missing", "legacy")},) + " lines=%r" % (lines,)
    path = None
    try:
        # ---- save
        try:
            if case["via"] == "path":
                fd, path = tempfile.mkstemp(prefix="verif-c09-", suffix=".logits")
                os.close(fd)
                os.unlink(path)
                if flag:
                    l1.save_logits(path, missing_line_logits_ok=True)
                else:
                    l1.save_logits(path)        # the default is to report a missing component
                blob = path
            else:
                blob = l1.save_logits_bytes(missing_line_logits_ok=True) if flag else l1.save_logits_bytes()
            saved = True
        except Exception as e:  # noqa
            saved = False
            err = e
        if miss_id is not None and not flag:
            ctx.event("missing_component_flag_off")
            ctx.check(not saved, "missing_component_saved_silently", desc)
            if case["via"] == "path":
                ctx.check(not os.path.exists(path), "file_written_despite_missing_component", desc)
            return
        ctx.check(saved, "save_raises", lambda: "%r; " % (err,) + desc())
        if case["via"] == "path":
            ctx.check(os.path.exists(path), "save_reports_success_but_writes_no_file", lambda: "page of %d lines; " % (len(list(l1.lines_iterator())),) + desc())
        # history: the target layout has been used before (densified, as ALTO export / confidence estimation / decoding do)
        for line in l2.lines_iterator():
            line.get_dense_logits()
            line.get_full_logprobs()
        if case["legacy"]:
            d = pickle.loads(blob) if isinstance(blob, bytes) else pickle.load(open(blob, "rb"))
            d.pop("line_characters", None)
            d.pop("logit_coords", None)
            blob = pickle.dumps(d, protocol=4)
            ctx.event("legacy_file")
        ctx.must("load_raises", l2.load_logits, blob)
        for line in l2.lines_iterator():
            if line.id == miss_id:
                continue
            if line.id in model:
                m, chars, coords, _ = model[line.id]
                ctx.check(same_matrix(line.logits, m), "matrix_not_restored", lambda: "line %r; " % line.id + desc())
                if case["legacy"]:
                    ctx.check(line.characters is None and list(line.logit_coords) == [None, None], "legacy_defaults",
                              lambda: "line %r chars=%r coords=%r; " % (line.id, line.characters, line.logit_coords) + desc())
                else:
                    ctx.check(line.characters is not None and list(line.characters) == list(chars), "characters_not_restored", lambda: "line %r; " % line.id + desc())
                    ctx.check(line.logit_coords is not None and list(line.logit_coords) == list(coords), "window_not_restored",
                              lambda: "line %r got %r want %r; " % (line.id, line.logit_coords, coords) + desc())
            else:
                s = sentinels[line.id]
                ctx.check(line.logits is s[0] and line.characters is s[1] and line.logit_coords is s[2], "absent_line_touched",
                          lambda: "line %r; " % line.id + desc())
        # source layout untouched
        for line in l1.lines_iterator():
            if line.id != miss_id:
                ctx.check(line.logits is model[line.id][0], "save_mutates_source", desc)
        # ---- dense reconstruction (on the lines that were just loaded into the used layout, and on fresh lines)
        from pero_ocr.core.layout import TextLine
        loaded = {l.id: l for l in l2.lines_iterator() if l.id in model and l.id != miss_id}
        held = []       # reconstructions handed out for earlier lines: they must survive the reconstruction of later lines
        for i, (m, chars, coords, dense) in model.items():
          if dense.shape[0] and i in loaded:
              for arr in (loaded[i].get_dense_logits(), loaded[i].get_full_logprobs()):
                  held.append((i, arr, np.array(arr, copy=True)))
          for tl in ([loaded[i]] if i in loaded else []) + [TextLine(id=i, logits=m)]:
              for floor in (None, case["floor"]):
                  got = tl.get_dense_logits() if floor is None else tl.get_dense_logits(floor)
                  f = -80 if floor is None else floor
                  want = np.where(dense != 0, dense, dense.dtype.type(f))
                  ctx.check(got.shape == dense.shape and np.array_equal(got, want), "dense_reconstruction",
                            lambda: "line %r floor %r; " % (i, f) + desc())
              if dense.shape[0]:
                  lp = tl.get_full_logprobs()
                  s = np.logaddexp.reduce(lp.astype(np.float64), axis=1)
                  # float32 round-off of a log-sum over C classes grows with C (1e-5 at C = 300)
                  ctx.check(np.all(np.abs(s) < 2e-5 + 1e-6 * dense.shape[1]), "full_logprobs_not_normalised", lambda: "line %r sums %r; " % (i, s) + desc())
                  dl = tl.get_dense_logits()
                  ctx.check(np.allclose(lp - lp[:, :1], dl - dl[:, :1], atol=1e-4), "full_logprobs_not_shift_of_logits", desc)
        # ---- the same file name is written again with other content (a page that is recognised a second time), also as a bare
        # file name in the working directory: a later load restores what the file holds now
        if case["via"] == "path" and model and not case["legacy"] and miss_id is None:
            l3 = make_layout([i for i in model], 1, lambda line, i: None)
            for line in l3.lines_iterator():
                m0, ch0, co0, _ = model[line.id]
                line.logits = sparse.csc_matrix((m0.toarray() * 2 + 1).astype(np.float32))
                line.characters = list(ch0)[::-1]
                line.logit_coords = list(co0)
            old_cwd = os.getcwd()
            bare = case["nreg"] % 2 == 0
            try:
                if bare:
                    os.chdir(os.path.dirname(path))
                target = os.path.basename(path) if bare else path
                ctx.must("save_raises", l3.save_logits, target)
                l4 = make_layout([i for i in model], 1, lambda line, i: None)
                ctx.must("load_raises", l4.load_logits, target)
            finally:
                os.chdir(old_cwd)
            for a_, b_ in zip(l3.lines_iterator(), l4.lines_iterator()):
                ctx.check(b_.logits is not None and (a_.logits != b_.logits).nnz == 0 and list(a_.characters) == list(b_.characters),
                          "rewritten_file_loads_its_earlier_content", lambda: "line %r (%s file name); " % (a_.id, "bare" if bare else "absolute") + desc())
            ctx.event("file_rewritten_with_other_content" + ("(bare file name)" if bare else ""))
        for i, arr, snap_ in held:
            ctx.check(arr.shape == snap_.shape and np.array_equal(arr, snap_), "reconstruction_of_an_earlier_line_changed_by_later_ones",
                      lambda: "line %r; " % (i,) + desc())
        only_one_side = (set(model) ^ set(ids2)) - {miss_id}
        mixed = any(0 < (d != 0).sum() < d.size for _, _, _, d in model.values())
        if len(model) >= 2 and only_one_side and mixed:
            ctx.nontrivial(repr((lines, ids2, case["via"], case["missing"], case["legacy"])))
        ctx.event("via:" + case["via"])
    finally:
        if path and os.path.exists(path):
            os.unlink(path)


# ---------------------------------------------------------------- end to end
def strat_e2e():
    from hypothesis import strategies as st
    from vlib.pages import line_geometry
    word = st.text("abcde", min_size=1, max_size=5)
    text = st.lists(word, min_size=0, max_size=4).map(" ".join) | st.just("") | st.none()

    @st.composite
    def case(draw):
        lines = []
        y = 60
        many = draw(st.integers(0, 7)) == 0         # a page of a dozen regions with a stored reading order
        for k in range(draw(st.integers(11, 14)) if many else draw(st.integers(1, 5))):
            geom = draw(line_geometry(y=y))
            y += 70
            lines.append(dict(geom=geom, text=draw(text), seed=draw(st.integers(0, 2 ** 31 - 1)),
                              confuse=draw(st.sampled_from([0.0, 0.3, 0.8])),
                              index=draw(st.none() | st.integers(0, 20))))      # stored line indices need not follow the list order
        nreg = len(lines) if many else draw(st.integers(1, 2))
        order = None
        if many or draw(st.integers(0, 3)) == 0:
            order = list(draw(st.permutations(list(range(nreg)))))
        return dict(lines=lines, nreg=nreg, k=draw(st.sampled_from([1, 3, 8])), order=order)
    return case()


CHARS = list("abcde ") + ["​"]


def alto_words(xml):
    import lxml.etree as ET
    root = ET.fromstring(xml.encode("utf-8"))
    out = []
    for tl in root.iter():
        if isinstance(tl.tag, str) and tl.tag.split("}")[-1] == "TextLine":
            out.append([s.get("CONTENT") for s in tl if isinstance(s.tag, str) and s.tag.split("}")[-1] == "String"])
    return out


def body_e2e(ctx, case):
    import copy
    from pero_ocr.core.layout import PageLayout, RegionLayout
    from pero_ocr.document_ocr.page_parser import PageDecoder
    from pero_ocr.decoding.decoders import GreedyDecoder, CTCPrefixLogRawNumpyDecoder, BLANK_SYMBOL
    from vlib.pages import build_line, region_polygon_around
    pl = PageLayout(id="page.jpg", page_size=(1200, 1600))
    nreg = case["nreg"]
    groups = [[] for _ in range(nreg)]
    for n, l in enumerate(case["lines"]):
        lid = ("l%03d" % n) if l["seed"] % 4 else ("id_l%d" % n)        # ids are opaque strings, also when they start with 'id_'
        line = build_line(lid, l["geom"], l["text"], CHARS, l["seed"], confuse=l["confuse"], index=l.get("index"))
        groups[n % nreg].append(line)
    for r, g in enumerate(groups):
        if not g:
            continue
        reg = RegionLayout("r%d" % r, region_polygon_around([x.polygon for x in g]))
        reg.lines = g
        pl.regions.append(reg)
    if case.get("order") is not None:
        pl.reading_order = {"r%d" % r: int(pos) for r, pos in enumerate(case["order"]) if any(x.id == "r%d" % r for x in pl.regions)}
        ctx.event("stored_reading_order")
        if len(pl.regions) >= 11:
            ctx.event("more_than_ten_ordered_regions")
    xml = ctx.must("export_raises", pl.to_pagexml_string)
    blob = ctx.must("save_raises", pl.save_logits_bytes)
    if case["lines"][0]["seed"] % 2:
        p2 = PageLayout()
        ctx.must("import_raises", p2.from_pagexml_string, xml)
    else:       # the way the scripts load a page: straight from the constructor
        from io import BytesIO
        p2 = ctx.must("import_raises", lambda: PageLayout(file=BytesIO(xml.encode("utf-8"))))
    ctx.must("load_raises", p2.load_logits, blob)
    desc = lambda: "case=%r" % (case,)
    letters = CHARS[:-1] + [BLANK_SYMBOL]
    for name, dec in (("greedy", GreedyDecoder(letters)), ("beam", CTCPrefixLogRawNumpyDecoder(letters, case["k"]))):
        a, b = copy.deepcopy(pl), copy.deepcopy(p2)
        from checks.c08_history import catching_errors
        with catching_errors() as errs:
            PageDecoder(dec).process_page(a)
            PageDecoder(dec).process_page(b)
        # the comparison below would be vacuous if decoding failed on both sides (process_page only logs line failures)
        n_empty = sum(1 for l in pl.lines_iterator() if l.logits.shape[0] == 0)       # nothing to decode: the decoders reject zero frames
        ctx.check(len(errs.records) == 2 * n_empty, "line_not_decodable_from_its_logits",
                  lambda: "%s: %d lines without frames, errors %r; " % (name, n_empty, errs.records[:2]) + desc())
        ta = [(l.id, l.transcription) for l in a.lines_iterator()]
        tb = [(l.id, l.transcription) for l in b.lines_iterator()]
        ctx.check(ta == tb, "redecoding_differs_after_reload", lambda: "%s: original %r reloaded %r; " % (name, ta, tb) + desc())
    wa = alto_words(ctx.must("alto_raises", copy.deepcopy(pl).to_altoxml_string))
    wb = alto_words(ctx.must("alto_raises", copy.deepcopy(p2).to_altoxml_string))
    ctx.check(wa == wb, "alto_text_differs_after_reload", lambda: "original %r reloaded %r; " % (wa, wb) + desc())
    if len(case["lines"]) >= 2 and any(l["text"] for l in case["lines"]):
        ctx.nontrivial(repr(case))


UNITS = [
    Unit("save_load", "given", body=body_io, strategy=strat_io, quick=1600, thorough=12000),
    Unit("end_to_end", "given", body=body_e2e, strategy=strat_e2e, quick=240, thorough=2000),
]
