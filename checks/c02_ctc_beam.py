"""C02 - CTC prefix beam search never over-counts and is exact when unpruned."""
import itertools
import math

import numpy as np

from vlib.core import Unit
from vlib import ctc
from vlib.gen import logprob_matrix, render_matrix

PROPERTY = "C02"
LEVEL = "exploration"
RULE = ("Row-normalised log-prob matrices T<=8 x C<=6 (blank last) from five families (softmax of scaled Gaussians, "
        "peaky rows over a -80 floor, probabilities on a k/4 or k/8 grid with exact ties and zeros, rows whose every "
        "non-blank entry is below the pre-selection threshold, scripted 'a a'/'a _ a'/'a b a' patterns), float64 and "
        "float32, beam widths {1,2,3,5,10,10^4}, default and select-all symbol selectors; judged against brute-force "
        "enumeration of all C^T labellings, the CTC forward recursion and a textbook dict-based prefix beam search "
        "written for the check. Non-trivial: T>=2, >=2 transcripts of non-zero probability and (the beam dropped a "
        "candidate or a prefix reached by extension was already in the beam, both observed in the reference "
        "search); distinct by (matrix, k, selector). Thorough adds the complete grid T<=3, C=3, quarter-probabilities.")
ASSUMPTIONS = ["ties within 1e-9 at a beam cut or at the pre-selection threshold make the pruned result ambiguous: "
               "such runs are only checked for distinctness and the upper bound",
               "scores are compared with tolerance 1e-9*(1+|x|)"]

LETTERS = list("abcdefghijklmnop") + [chr(0x4e00 + i) for i in range(320)]
_LONG_LIVED = {}


def letters_for(C):
    from pero_ocr.decoding.decoders import BLANK_SYMBOL
    return LETTERS[:C - 1] + [BLANK_SYMBOL]


def select_all(logits):
    return (np.arange(len(logits)),)


def select_all_desc(logits):
    """keeps everything, listed from the last class to the first (selectors need not list symbols in ascending order:
    a top-n selector lists them best-first)"""
    return (np.arange(len(logits))[::-1].copy(),)


def selector_for(sel):
    from pero_ocr.decoding.decoders import select_relevant_logits
    return {"all": select_all, "all_desc": select_all_desc}.get(sel, select_relevant_logits)


def to_tuple(s):
    return tuple(LETTERS.index(ch) for ch in s)


def tol(x):
    return 1e-9 * (1 + abs(x)) if math.isfinite(x) else 0.0


def run_case(ctx, fam, M, k, sel, dtype, tag="rand"):
    from pero_ocr.decoding.decoders import CTCPrefixLogRawNumpyDecoder, select_relevant_logits
    T, C = M.shape
    logits = np.asarray(M, dtype=np.float32 if dtype == "f32" else np.float64)
    L64 = logits.astype(np.float64)
    dec = CTCPrefixLogRawNumpyDecoder(letters_for(C), k,
                                      relevant_logits_selector=selector_for(sel))
    desc = lambda: "family=%s k=%d selector=%s dtype=%s matrix=\n%s" % (fam, k, sel, dtype, render_matrix(logits))
    with np.errstate(all="ignore"):
        boh = ctx.must("decoder_raises", dec, logits.copy())
    hyps = [(h.transcript, float(h.vis_sc)) for h in boh]
    # the same input through a long-lived decoder of this worker (decoders are reused across lines, e.g. by decode_page):
    # the result must not depend on what that decoder has decoded before
    key = (C, k, sel)
    if key not in _LONG_LIVED:
        _LONG_LIVED[key] = CTCPrefixLogRawNumpyDecoder(letters_for(C), k,
                                                        relevant_logits_selector=selector_for(sel))
    with np.errstate(all="ignore"):
        boh2 = ctx.must("decoder_raises", _LONG_LIVED[key], logits.copy())
    hyps2 = [(h.transcript, float(h.vis_sc)) for h in boh2]
    ctx.check(sorted(hyps2) == sorted(hyps), "result_depends_on_decoder_history",
              lambda: "fresh decoder %r, decoder used for earlier inputs %r; " % (sorted(hyps), sorted(hyps2)) + desc())
    # the bag handed back for a line stays what it is while the same decoder decodes the next line (page decoding keeps the
    # bags of all lines), also when that next line is rejected as un-normalised
    with np.errstate(all="ignore"):
        ctx.must("decoder_raises", _LONG_LIVED[key], np.roll(logits, 1, axis=0).copy())
        try:
            _LONG_LIVED[key](logits + 0.5)
        except ValueError:
            pass
        boh3 = ctx.must("decoder_raises", _LONG_LIVED[key], logits.copy())
        # the caller's matrix buffer re-used for the next line (same array object, new content)
        buf = logits.copy()
        _LONG_LIVED[key](buf)
        buf[...] = logits[::-1]
        boh_buf = ctx.must("decoder_raises", _LONG_LIVED[key], buf)
        boh_rev = ctx.must("decoder_raises", dec, np.ascontiguousarray(logits[::-1]).copy())
    ctx.check(sorted((h.transcript, float(h.vis_sc)) for h in boh_buf) == sorted((h.transcript, float(h.vis_sc)) for h in boh_rev),
              "result_for_a_reused_buffer_is_that_of_its_earlier_content", desc)
    hyps2_later = [(h.transcript, float(h.vis_sc)) for h in boh2]
    ctx.check(hyps2_later == hyps2, "earlier_bag_changed_by_a_later_call", lambda: "was %r, is %r; " % (hyps2, hyps2_later) + desc())
    hyps3 = [(h.transcript, float(h.vis_sc)) for h in boh3]
    ctx.check(sorted(hyps3) == sorted(hyps), "result_depends_on_decoder_history",
              lambda: "fresh decoder %r, the same decoder after another line and a rejected line %r; " % (sorted(hyps), sorted(hyps3)) + desc())
    # a decoder that was deep-copied or pickled and restored (sent to a worker process) decodes like the original
    import copy as _copy
    import pickle as _pickle
    for how, clone in (("deepcopy", _copy.deepcopy(dec)), ("pickle", _pickle.loads(_pickle.dumps(dec)))):
        with np.errstate(all="ignore"):
            boh_c = ctx.must("decoder_raises", clone, logits.copy())
        ctx.check(sorted((h.transcript, float(h.vis_sc)) for h in boh_c) == sorted(hyps), "copied_decoder_decodes_differently",
                  lambda: "%s: %r, original %r; " % (how, sorted((h.transcript, float(h.vis_sc)) for h in boh_c), sorted(hyps)) + desc())
    # the documented symbol_separator option (used with multi-character symbols) only changes how a prefix is written
    if C <= 16:
        sep_dec = CTCPrefixLogRawNumpyDecoder(letters_for(C), k, relevant_logits_selector=selector_for(sel), symbol_separator="|")
        with np.errstate(all="ignore"):
            boh_sep = ctx.must("decoder_raises", sep_dec, logits.copy())
        got_sep = sorted((h.transcript, float(h.vis_sc)) for h in boh_sep)
        want_sep = sorted(("|".join(t), v) for t, v in hyps)
        ctx.check(got_sep == want_sep, "symbol_separator_changes_the_result", lambda: "with separator %r, without %r; " % (got_sep, sorted(hyps)) + desc())
    ctx.event("family:" + fam)
    ctx.event("selector:" + sel)
    ctx.event("k:%d" % k)
    ctx.check(len(hyps) >= 1, "empty_bag", desc)
    ts = [t for t, _ in hyps]
    ctx.check(len(set(ts)) == len(ts), "duplicate_transcripts", lambda: "returned %r; " % (hyps,) + desc())
    ctx.check(len(hyps) <= k, "more_than_k_hypotheses", lambda: "returned %r; " % (hyps,) + desc())

    small = C ** T <= 4000
    truth = ctc.brute_force_scores(L64) if small else None
    for t, v in hyps:
        tt = to_tuple(t)
        fwd = ctc.forward_score(L64, tt)
        if truth is not None:
            bf = truth.get(tt, ctc.NEG)
            ctx.check(abs(fwd - bf) <= 1e-9 * (1 + abs(bf)) or (fwd == bf), "ORACLE_DISAGREE", lambda: "forward %r brute %r for %r; " % (fwd, bf, t) + desc())
        ctx.check(not math.isnan(v), "nan_score", desc)
        ctx.check(v <= fwd + tol(fwd), "score_exceeds_ctc_probability",
                  lambda: "transcript %r vis_sc=%r true CTC log-prob=%r; " % (t, v, fwd) + desc())

    ref = ctc.ref_prefix_beam_search(L64, k, None if sel in ("all", "all_desc") else -10.0)
    got = {to_tuple(t): v for t, v in hyps}
    finite_got = {t: v for t, v in got.items() if v != ctc.NEG}
    if not ref.ambiguous:
        ctx.check(set(finite_got) == set(ref.hyps), "differs_from_reference_beam_search",
                  lambda: "returned %r reference %r; " % (sorted(finite_got.items()), sorted((p, v[0]) for p, v in ref.hyps.items())) + desc())
        for p, (v, _) in ref.hyps.items():
            ctx.check(abs(finite_got[p] - v) <= tol(v), "score_differs_from_reference_beam_search",
                      lambda: "transcript %r got %r reference %r; " % (p, finite_got[p], v) + desc())
    else:
        ctx.event("ambiguous_cut")
    if sel in ("all", "all_desc") and not ref.dropped:
        # nothing pruned: complete and exact
        ctx.event("unpruned")
        if truth is not None:
            ctx.check(set(finite_got) == set(truth), "unpruned_not_complete",
                      lambda: "returned %r, transcripts of non-zero probability %r; " % (sorted(finite_got), sorted(truth)) + desc())
        for p, v in finite_got.items():
            exact = truth[p] if truth is not None else ctc.forward_score(L64, p)
            ctx.check(abs(v - exact) <= tol(exact), "unpruned_score_not_exact",
                      lambda: "transcript %r got %r exact %r; " % (p, v, exact) + desc())
    if ref.dropped:
        ctx.event("beam_dropped")
    if ref.joined:
        ctx.event("prefix_joined")
    if ref.preselected:
        ctx.event("preselection_removed_symbol")
    if ref.skipped_frames:
        ctx.event("all_pruned_frame")
    n_pos = len(truth) if truth is not None else len(ref.hyps)
    if T >= 2 and n_pos >= 2 and (ref.dropped or ref.joined):
        ctx.nontrivial((tag, logits.tobytes(), logits.shape, k, sel, dtype),
                       sample="family=%s k=%d selector=%s dtype=%s shape=%s matrix=%s" % (fam, k, sel, dtype, M.shape, render_matrix(np.round(logits, 3))))


def strat_case():
    from hypothesis import strategies as st
    return st.tuples(logprob_matrix(big_alphabet=True, long_lines=True), st.sampled_from([1, 2, 3, 5, 10, 10000]), st.sampled_from(["default", "default", "all", "all", "all_desc"]),
                     st.sampled_from(["f64", "f64", "f32"]))


def body_random(ctx, case):
    (fam, M), k, sel, dtype = case
    if k > 10 and M.shape[1] ** M.shape[0] > 4000:
        k = 10      # bounds the O(n^2) prefix joining of the decoder; unpruned runs need C^T <= 4000
    if M.shape[0] > 30:
        k = min(k, 5)
    run_case(ctx, fam, M, k, sel, dtype)


def render_case(case):
    (fam, M), k, sel, dtype = case
    return "family=%s k=%d selector=%s dtype=%s matrix=%s" % (fam, k, sel, dtype, render_matrix(M))


# ---------------------------------------------------------------- un-normalised input
def strat_unnorm():
    from hypothesis import strategies as st
    return st.tuples(logprob_matrix(families=["gauss", "peaky", "script"]), st.integers(0, 7),
                     st.sampled_from([2e-4, -2e-4, 1e-3, 0.1, -0.5, 3.0, 5e-7, -5e-7, 0.0]),
                     st.sampled_from([1, 3, 40]))


def body_unnorm(ctx, case):
    from pero_ocr.decoding.decoders import CTCPrefixLogRawNumpyDecoder, GreedyDecoder
    (fam, M), row, delta, k = case
    if row == 7 and M.shape[0] >= 2:
        # a line of several hundred frames (the drawn matrix repeated); the unnormalised frame is one of the last
        reps = 300 // M.shape[0] + 1 + (k % 3) * 40
        M = np.tile(M, (reps, 1))
        row = M.shape[0] - 1 - (k % 5)
        k = min(k, 3)
    T, C = M.shape
    M = M.copy()
    M[row % T] += math.log1p(delta)
    dev = abs(delta)
    decs = [("beam", CTCPrefixLogRawNumpyDecoder(letters_for(C), k)), ("greedy", GreedyDecoder(letters_for(C)))]
    for name, dec in decs:
        try:
            with np.errstate(all="ignore"):
                out = dec(M.copy())
            raised = None
        except ValueError as e:
            raised = e
        except Exception as e:  # noqa
            ctx.fail("unnormalised_wrong_exception", "%s raised %s: %s" % (name, type(e).__name__, e))
        if dev > 1e-4:
            ctx.check(raised is not None, "unnormalised_input_decoded",
                      lambda: "%s decoded a matrix whose row %d sums to %r: %s" % (name, row % T, 1 + delta, render_matrix(M)))
        elif dev < 1e-6:
            ctx.check(raised is None, "normalised_input_rejected", lambda: "%s rejected deviation %r" % (name, delta))
    # a decoder of this worker on which an earlier call asked for a looser tolerance (max_unnormalization is a per-call
    # argument): a later call with the default must still reject un-normalised input
    key = ("tolerant", C, k)
    if key not in _LONG_LIVED:
        _LONG_LIVED[key] = CTCPrefixLogRawNumpyDecoder(letters_for(C), k)
    try:
        with np.errstate(all="ignore"):
            _LONG_LIVED[key](M.copy(), max_unnormalization=np.inf)
    except Exception:  # noqa: BLE001 - what the tolerant call itself does is not this property's business
        pass
    if dev > 1e-4:
        try:
            with np.errstate(all="ignore"):
                _LONG_LIVED[key](M.copy())
            rejected = False
        except ValueError:
            rejected = True
        ctx.check(rejected, "unnormalised_input_decoded_after_an_earlier_tolerant_call",
                  lambda: "row %d sums to %r: %s" % (row % T, 1 + delta, render_matrix(M)))
    ctx.event("rejected" if dev > 1e-4 else "accepted")
    if dev > 1e-4 and T >= 2:
        ctx.nontrivial(("unnorm", M.tobytes(), row, delta, k))


# ---------------------------------------------------------------- exhaustive grid
def grid_cases(tier):
    maxT = 2 if tier == "quick" else 3
    comps = [c for c in itertools.product(range(5), repeat=3) if sum(c) == 4]
    out = []
    for T in range(1, maxT + 1):
        for rows in itertools.product(comps, repeat=T):
            for k in (1, 2, 3, 10000):
                for sel in ("default", "all"):
                    out.append((rows, k, sel))
    return out


def body_grid(ctx, case):
    rows, k, sel = case
    M = np.array([[math.log(x / 4.0) if x else ctc.NEG for x in r] for r in rows], dtype=np.float64)
    run_case(ctx, "grid4", M, k, sel, "f64", tag="grid")


UNITS = [
    Unit("random", "given", body=body_random, strategy=strat_case, quick=3000, thorough=60000, render=render_case),
    Unit("unnormalised", "given", body=body_unnorm, strategy=strat_unnorm, quick=400, thorough=5000),
    Unit("grid", "enum", body=body_grid, cases=grid_cases, exhaustive=True),
]
