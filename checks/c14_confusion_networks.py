"""C14 - confusion networks keep every hypothesis as an ordered path."""
import copy
import itertools
import math

from vlib.core import Unit, PropertyViolation

PROPERTY = "C14"
LEVEL = "exploration"
RULE = ("Histories of add_hypothese calls on one network (RuleBasedStateMachine; hypotheses of length 0-6 over "
        "{a,b,c}, free or prefix/suffix/extension of an earlier one, positive weights) checked after every step "
        "against a readability DP and an order-preserving embedding of the previous network; separate generated "
        "units for produce_cn_from_boh / normalize_cn / best_cn_path / sorted_cn_paths (Cartesian-product oracle). "
        "Non-trivial: a history with a step that inserts >= 2 new positions or whose hypothesis properly extends "
        "the current pivot; distinct by the full history.")
ASSUMPTIONS = ["symbols are single-character strings; weights are positive finite floats",
               "sorted_cn_paths is only judged on non-empty networks (the repository's own tests pin [] for [])"]


# ------------------------------------------------------------------ oracle helpers
def readable(cn, s):
    """can one arc per position spell s (None arcs are skipped)?"""
    s = list(s)
    reach = {0}
    for pos in cn:
        nxt = set()
        for k in reach:
            if None in pos:
                nxt.add(k)
            if k < len(s) and s[k] in pos:
                nxt.add(k + 1)
        reach = nxt
        if not reach:
            return False
    return len(s) in reach


def all_strings(cn, limit=2000):
    n = 1
    for p in cn:
        n *= len(p)
        if n > limit:
            return None
    out = set()
    for combo in itertools.product(*[list(p.keys()) for p in cn]):
        out.add("".join(c for c in combo if c is not None))
    return out


def close(x, y):
    return abs(x - y) <= 1e-9 * max(1.0, abs(x), abs(y))


def pos_gained(old, new, w):
    """new position == old position with exactly w added on exactly one arc (possibly a new arc)."""
    if not set(old) <= set(new) or len(new) - len(old) > 1:
        return False
    changed = 0
    for k, v in new.items():
        if k in old:
            if close(v, old[k]):
                continue
            if close(v, old[k] + w):
                changed += 1
            else:
                return False
        else:
            if close(v, w):
                changed += 1
            else:
                return False
    return changed == 1


def pos_inserted(new, w, mean_w):
    if len(new) != 2 or None not in new:
        return False
    (sym,) = [k for k in new if k is not None]
    return close(new[None], mean_w) and close(new[sym], w)


def embeds(old, new, w):
    """order-preserving embedding of old positions into new; others are freshly inserted positions."""
    mean_w = sum(sum(p.values()) for p in old) / len(old)
    n, m = len(old), len(new)
    # ok[i][j]: old[i:] embeds into new[j:]
    ok = [[False] * (m + 2) for _ in range(n + 2)]
    for i in range(n, -1, -1):
        for j in range(m, -1, -1):
            if i == n and j == m:
                ok[i][j] = True
                continue
            r = False
            if j < m and pos_inserted(new[j], w, mean_w) and ok[i][j + 1]:
                r = True
            if not r and i < n and j < m and pos_gained(old[i], new[j], w) and ok[i + 1][j + 1]:
                r = True
            ok[i][j] = r
    return ok[0][0]


def pivot_string(cn):
    out = []
    for p in cn:
        best = sorted(p, key=lambda k: p[k], reverse=True)[0]
        if best is not None:
            out.append(best)
    return "".join(out)


class History:
    """Model side: everything added so far; performs one checked step."""

    def __init__(self, ctx):
        self.ctx = ctx
        self.cn = []
        self.hyps = []
        self.nontrivial = False
        self.ops = []

    def add(self, h, w):
        from pero_ocr.decoding import confusion_networks as CN
        ctx = self.ctx
        old = copy.deepcopy(self.cn)
        old_strings = all_strings(old) if old else None
        piv = pivot_string(old)
        new = ctx.must("add_raises", CN.add_hypothese, self.cn, h, w)
        self.cn = new
        self.hyps.append(h)
        self.ops.append((h, w))
        desc = lambda: "history=%r network before=%r after=%r" % (self.ops, old, new)
        ctx.check(isinstance(new, list) and all(isinstance(p, dict) and p for p in new), "malformed_network", desc)
        ctx.check(all(v > 0 and math.isfinite(v) for p in new for v in p.values()), "non_positive_weight", desc)
        ctx.check(readable(new, h), "new_hypothesis_not_readable", desc)
        for e in self.hyps:
            ctx.check(readable(new, e), "earlier_hypothesis_lost", lambda: "lost %r; " % e + desc())
        if old:
            if old_strings is not None:
                for s in sorted(old_strings):
                    ctx.check(readable(new, s), "old_path_lost", lambda: "lost path %r; " % s + desc())
            ctx.check(embeds(old, new, w), "weight_bookkeeping", desc)
            grown = len(new) - len(old)
            if grown >= 2:
                ctx.event("step_inserting_2plus_positions")
                self.nontrivial = True
            if len(h) > len(piv) and h.startswith(piv) and piv:
                ctx.event("proper_extension_of_pivot")
                self.nontrivial = True
            if grown == 0:
                ctx.event("step_without_insertion")
        else:
            ctx.check(len(new) == len(h) and all(p == {c: w} for p, c in zip(new, h)), "first_hypothesis_network", desc)


# ------------------------------------------------------------------ known finding
def known_empty_first(kind, history, detail):
    """'' added while the network was still empty cannot be represented ([] stays []) and is lost later."""
    if kind not in ("earlier_hypothesis_lost", "old_path_lost"):
        return False
    adds = [op for op in history if op[0] == "add"]
    lead = 0
    for op in adds:
        if op[1] == "":
            lead += 1
        else:
            break
    return lead >= 1 and ("lost ''" in detail or "lost path ''" in detail)


KEY = "empty-hypothesis-into-empty-network"
KNOWN = {KEY: known_empty_first}


# ------------------------------------------------------------------ state machine
def make_machine(ctx):
    from hypothesis import strategies as st
    from hypothesis.stateful import rule, precondition
    from vlib.machine import LoggedMachine

    sym = st.sampled_from("abc")
    hyp = st.text(alphabet="abc", max_size=6)
    weight = st.sampled_from([1.0, 0.5, 0.25, 2.0, 3.0]) | st.floats(0.01, 10.0, allow_nan=False)

    class CNMachine(LoggedMachine):
        unit_known = KNOWN

        def setup(self):
            self.h = History(self.ctx)

        @rule(h=hyp, w=weight)
        def add_free(self, h, w):
            self.do(("add", h, w))

        @precondition(lambda self: len(self.h.hyps) > 0)
        @rule(data=st.data(), w=weight)
        def add_related(self, data, w):
            base = data.draw(st.sampled_from(self.h.hyps))
            mode = data.draw(st.sampled_from(["prefix", "suffix", "ext_end", "ext_start", "ext_mid", "pivot_ext"]))
            ext = data.draw(st.text(alphabet="abc", min_size=1, max_size=3))
            if mode == "prefix":
                h = base[:data.draw(st.integers(0, len(base)))]
            elif mode == "suffix":
                h = base[data.draw(st.integers(0, len(base))):]
            elif mode == "ext_end":
                h = base + ext
            elif mode == "ext_start":
                h = ext + base
            elif mode == "ext_mid":
                k = data.draw(st.integers(0, len(base)))
                h = base[:k] + ext + base[k:]
            else:
                h = pivot_string(self.h.cn) + ext
            self.ctx.event("related:" + mode)
            self.do(("add", h[:8], w))

        def op_add(self, h, w):
            self.h.add(h, w)

        def teardown(self):
            if getattr(self, "h", None) is not None and self.h.nontrivial:
                self.ctx.nontrivial(("history", self.h.ops))

    CNMachine.ctx = ctx
    return CNMachine


# ------------------------------------------------------------------ enumeration (pairs and triples)
def enum_cases(tier):
    strs = ["".join(p) for k in range(4) for p in itertools.product("ab", repeat=k)]
    ws = (1.0, 0.5, 0.25)
    out = []
    for a in strs:
        for b in strs:
            out.append(((a, ws[0]), (b, ws[1])))
    if tier != "quick":
        for a in strs:
            for b in strs:
                for c in strs:
                    out.append(((a, ws[0]), (b, ws[1]), (c, ws[2])))
    return out


def body_enum(ctx, case):
    h = History(ctx)
    try:
        for s, w in case:
            h.add(s, w)
    except PropertyViolation as v:
        if KEY in ctx.known_keys and known_empty_first(v.kind, [("add", s, w) for s, w in case], v.detail):
            ctx.excluded[KEY] += 1
            return
        raise
    if h.nontrivial:
        ctx.nontrivial(("history", case))


# ------------------------------------------------------------------ bags, normalisation, paths
def strat_bag():
    from hypothesis import strategies as st
    # symbols are code points: a base letter followed by a combining mark stays two symbols
    hyp = st.text(alphabet="abc", max_size=5) | st.text(alphabet="ae\u0301\u0308c", max_size=5) | st.text(alphabet="ab \t", max_size=5)
    sc = st.floats(-8.0, 0.0, allow_nan=False)
    entry = st.tuples(hyp, sc, st.one_of(st.none(), sc))
    return st.tuples(st.lists(entry, min_size=1, max_size=6, unique_by=lambda e: e[0]),
                     st.sampled_from([1.0, 0.0, 0.5, 2.0]), st.sampled_from([1.0, 0.0, 0.3, 2.5]), st.booleans())


def body_bag(ctx, case):
    from pero_ocr.decoding import confusion_networks as CN
    from pero_ocr.decoding.bag_of_hypotheses import BagOfHypotheses
    entries, vw, lw, with_lm = case
    boh = BagOfHypotheses()
    for t, v, l in entries:
        boh.add(t, v, l if with_lm and l is not None else None)
    ws = []
    for t, v, l in entries:
        l = l if with_lm and l is not None else None
        ws.append(math.exp(vw * v + (lw * l if l is not None else 0.0)))
    raw = ctx.must("produce_raises", CN.produce_cn_from_boh, boh, vw, lw, False)
    ref = []
    for (t, v, l), w in zip(entries, ws):
        ref = CN.add_hypothese(ref, t, w)
    ctx.check(len(raw) == len(ref) and all(set(a) == set(b) and all(close(a[k], b[k]) for k in a) for a, b in zip(raw, ref)),
              "produce_not_fold_of_add", lambda: "case=%r got %r want %r" % (case, raw, ref))
    cn = ctx.must("produce_raises", CN.produce_cn_from_boh, boh, vw, lw, True)
    for p in cn:
        ctx.check(abs(sum(p.values()) - 1.0) < 1e-9, "position_not_normalised", lambda: "case=%r cn=%r" % (case, cn))
    # the same bag asked again, in the other mode and with other weights: every answer is the fold of its own weights
    raw_again = ctx.must("produce_raises", CN.produce_cn_from_boh, boh, vw, lw, False)
    ctx.check(len(raw_again) == len(ref) and all(set(a) == set(b) and all(close(a[k], b[k]) for k in a) for a, b in zip(raw_again, ref)),
              "produce_depends_on_earlier_calls_for_the_same_bag", lambda: "case=%r: un-normalised network asked after the normalised one %r, want %r" % (case, raw_again, ref))
    ref2 = []
    for (t, v, l) in entries:
        l = l if with_lm and l is not None else None
        ref2 = CN.add_hypothese(ref2, t, math.exp(0.5 * vw * v + (lw * l if l is not None else 0.0)))
    raw2 = ctx.must("produce_raises", CN.produce_cn_from_boh, boh, 0.5 * vw, lw, False)
    ctx.check(len(raw2) == len(ref2) and all(set(a) == set(b) and all(close(a[k], b[k]) for k in a) for a, b in zip(raw2, ref2)),
              "produce_depends_on_earlier_calls_for_the_same_bag", lambda: "case=%r: with half the visual weight got %r want %r" % (case, raw2, ref2))
    first_empty = entries[0][0] == ""
    for i, (t, v, l) in enumerate(entries):
        if KEY in ctx.known_keys and t == "" and i == 0 and len(entries) > 1:
            ctx.excluded[KEY] += 1      # '' first: representable only as [] (known finding)
            continue
        ctx.check(readable(cn, t), "bag_hypothesis_not_readable", lambda: "case=%r cn=%r lost %r" % (case, cn, t))
    if len(entries) == 1:
        ctx.check(CN.best_cn_path(cn) == entries[0][0], "single_hypothesis_readback",
                  lambda: "case=%r cn=%r best=%r" % (case, cn, CN.best_cn_path(cn)))
    if len(entries) >= 2 and any(l is not None for _, _, l in entries) and with_lm and not first_empty:
        ctx.nontrivial(("bag", case))
    # normalisation keeps ratios
    for a, b in zip(raw, cn):
        tot = sum(a.values())
        ctx.check(all(close(a[k] / tot, b[k]) for k in a), "normalisation_changes_ratios", lambda: "case=%r" % (case,))


def strat_paths():
    from hypothesis import strategies as st
    arc = st.sampled_from(["a", "b", "c", None])
    # accumulated posteriors span many orders of magnitude (a hypothesis far down the beam adds e^-40 to an arc)
    wt = st.sampled_from([1.0, 2.0, 3.0, 0.5]) | st.floats(0.01, 5.0, allow_nan=False) | st.sampled_from([1e-9, 1e-18, 1e-25, 4e-31])
    pos = st.dictionaries(arc, wt, min_size=1, max_size=4)
    small = st.lists(pos, min_size=1, max_size=5)
    # a network of a whole line: 16-18 positions with two alternatives each (65 536 - 262 144 paths)
    pos2 = st.dictionaries(arc, st.sampled_from([1.0, 2.0, 0.5, 0.25]) | st.floats(0.05, 3.0, allow_nan=False), min_size=2, max_size=2)
    big = st.integers(16, 18).flatmap(lambda k: st.lists(pos2, min_size=k, max_size=k))
    return st.integers(0, 149).flatmap(lambda r: big if r == 0 else small)


def body_paths(ctx, case):
    from pero_ocr.decoding import confusion_networks as CN
    cn = copy.deepcopy(case)
    cn = ctx.must("normalize_raises", CN.normalize_cn, cn)
    for p, q in zip(cn, case):
        ctx.check(abs(sum(p.values()) - 1.0) < 1e-12 * 10 and set(p) == set(q), "position_not_normalised", lambda: "cn=%r" % (case,))
        tot = sum(q.values())
        ctx.check(all(close(q[k] / tot, p[k]) for k in q), "normalisation_changes_ratios", lambda: "cn=%r" % (case,))
    paths = ctx.must("sorted_paths_raises", CN.sorted_cn_paths, cn)
    n = 1
    for p in cn:
        n *= len(p)
    ctx.check(len(paths) == n, "path_count", lambda: "cn=%r got %d paths want %d" % (cn, len(paths), n))
    want = []
    for combo in itertools.product(*[list(p.items()) for p in cn]):
        s = "".join(c for c, _ in combo if c is not None)
        pr = 1.0
        for _, w in combo:
            pr *= w
        want.append((s, pr))

    def canon(ps):
        return sorted((s, round(p, 12)) for s, p in ps)
    ctx.check(canon(paths) == canon(want), "paths_not_cartesian_product", lambda: "cn=%r got %r want %r" % (cn, paths, want))
    ctx.check(all(paths[i][1] >= paths[i + 1][1] - 1e-15 for i in range(len(paths) - 1)), "paths_not_sorted", lambda: "cn=%r paths=%r" % (cn, paths))
    ctx.check(abs(sum(p for _, p in paths) - 1.0) < 1e-9, "paths_do_not_sum_to_one", lambda: "cn=%r" % (cn,))
    best = CN.best_cn_path(cn)
    top = max(p for _, p in paths)
    ctx.check(any(s == best and close(p, top) for s, p in paths), "best_path_not_most_probable", lambda: "cn=%r best=%r paths=%r" % (cn, best, paths[:3]))
    if n > 2 ** 16:
        ctx.event("more_than_65536_paths")
    if any(w < 1e-17 * max(p.values()) for p in case for w in p.values()):
        ctx.event("arc_below_1e-17_of_the_strongest")
    if len(cn) >= 2 and n >= 4:
        ctx.nontrivial(("paths", repr(case)))
    if any(len(p) >= 3 for p in cn) and len(cn) >= 3:
        ctx.event("rotor_reset_needed")


def strat_labels():
    from hypothesis import strategies as st
    hyp = st.lists(st.integers(0, 4), min_size=1, max_size=8)
    return st.lists(st.tuples(hyp, st.sampled_from([1.0, 0.5, 0.25]) | st.floats(0.05, 2.0, allow_nan=False)), min_size=1, max_size=3)


def body_labels(ctx, case):
    """hypotheses given as sequences of label indices (best_cn_path returns a list when the symbols are not characters);
    0 is an ordinary label."""
    from pero_ocr.decoding import confusion_networks as CN
    cn = []
    seen = []
    desc = lambda: "hypotheses=%r network=%r" % (case, cn)
    for k, (h, w) in enumerate(case):
        cn = ctx.must("add_raises", CN.add_hypothese, cn, tuple(h) if k % 2 else list(h), w)
        seen.append(h)
        ctx.check(readable(cn, h), "new_hypothesis_not_readable", desc)
        for e in seen:
            ctx.check(readable(cn, e), "earlier_hypothesis_lost", lambda: "lost %r; " % (e,) + desc())
        if k == 0:
            single = ctx.must("best_path_raises", CN.best_cn_path, ctx.must("normalize_raises", CN.normalize_cn, copy.deepcopy(cn)))
            ctx.check(list(single) == list(h), "single_hypothesis_does_not_read_back", lambda: "read %r; " % (single,) + desc())
    norm = ctx.must("normalize_raises", CN.normalize_cn, copy.deepcopy(cn))
    for p in norm:
        ctx.check(abs(sum(p.values()) - 1.0) < 1e-11, "position_not_normalised", desc)
    best = list(ctx.must("best_path_raises", CN.best_cn_path, norm))
    want = [max(p, key=lambda c: p[c]) for p in norm if len({round(v, 12) for v in p.values()}) == len(p)]
    if len(want) == len(norm):          # no ties inside a position
        want = [c for c in want if c is not None]
        ctx.check(best == want, "best_path_not_heaviest_arcs", lambda: "read %r heaviest arcs %r; " % (best, want) + desc())
    if any(0 in h for h, _ in case):
        ctx.event("label_zero_in_hypothesis")
    if len(case) >= 2:
        ctx.nontrivial(("labels", repr(case)))


def strat_long():
    from hypothesis import strategies as st
    return st.tuples(st.integers(200, 1500), st.integers(0, 2 ** 31 - 1), st.integers(0, 3))


def body_long(ctx, case):
    """long lines: a network of hundreds of positions built from one hypothesis and a few variants of it."""
    from pero_ocr.decoding import confusion_networks as CN
    n, seed, n_var = case
    import random
    r = random.Random(seed)                      # a pure function of the drawn seed
    base = "".join(r.choice("abc") for _ in range(n))
    cn = []
    cn = ctx.must("add_raises", CN.add_hypothese, cn, base, 1.0)
    hyps = [base]
    for k in range(n_var):
        pos = r.randrange(0, n)
        var = base[:pos] + r.choice("abc") + base[pos + 1:]
        if k % 2:
            var = var[:pos] + var[pos + 1:]
        cn = ctx.must("add_raises", CN.add_hypothese, cn, var, 0.5)
        hyps.append(var)
    for h in hyps:
        ctx.check(readable(cn, h), "hypothesis_not_readable_in_long_network", lambda: "length %d variants %d" % (n, n_var))
    cn = ctx.must("normalize_raises", CN.normalize_cn, cn)
    best = ctx.must("best_path_raises", CN.best_cn_path, cn)
    ctx.check(best == base, "best_path_of_long_network", lambda: "length %d: best path differs from the dominant hypothesis" % n)
    n_paths = 1
    for p in cn:
        n_paths *= len(p)
    if n_paths <= 64:
        # Hypothesis raises the interpreter's recursion limit while a test runs; an ordinary caller has about 1000 frames
        import inspect
        import sys
        old_limit = sys.getrecursionlimit()
        sys.setrecursionlimit(len(inspect.stack(0)) + 950)
        try:
            paths = ctx.must("sorted_paths_raises", CN.sorted_cn_paths, cn)
        finally:
            sys.setrecursionlimit(old_limit)
        ctx.check(len(paths) == n_paths and abs(sum(p for _, p in paths) - 1.0) < 1e-6 and paths[0][0] == base, "paths_of_long_network",
                  lambda: "length %d: %d paths" % (n, len(paths)))
    ctx.nontrivial(("long", case))


UNITS = [
    Unit("history", "machine", machine=make_machine, quick=1600, thorough=30000, steps=8,
         replay_history=True),
    Unit("pairs_triples", "enum", body=body_enum, cases=enum_cases, exhaustive=True),
    Unit("bag", "given", body=body_bag, strategy=strat_bag, quick=800, thorough=20000),
    Unit("long_networks", "given", body=body_long, strategy=strat_long, quick=60, thorough=600),
    Unit("paths", "given", body=body_paths, strategy=strat_paths, quick=800, thorough=20000),
    Unit("label_indices", "given", body=body_labels, strategy=strat_labels, quick=600, thorough=10000),
]
