"""C01 - PAGE XML export/import preserves the page layout."""
import io
import math
import os
import re
import tempfile

import numpy as np

from vlib.core import Unit

PROPERTY = "C01"
LEVEL = "exploration"
RULE = ("Model pages (plain data): page id with dots/blanks/Unicode, integer size, 0-5 regions (unique ids, optional "
        "type, polygon 3-8 points, region text absent/''/text), 0-4 lines each (unique ids, index absent or 0..999, "
        "baseline 2-6 points, polygon 4-10 points, heights absent or two floats biased to x.x5, transcription "
        "absent/''/any XML-legal Unicode with boosted markup characters, combining marks, RTL, astral plane, "
        "leading/trailing blanks; confidence absent or in [0,1]); coordinates integers, halves, negatives, floats; "
        "reading order none/permutation/partial/with a foreign id; both PAGE versions; import via string, BytesIO "
        "and file. Oracle: field-by-field comparison with the model under the documented rounding, byte-identical "
        "export fixpoint (timestamps stripped), region order against a stable sort computed by the check and read "
        "from the document with a separate lxml pass. Non-trivial: >= 1 line and one of: character needing escaping "
        "or non-ASCII, non-integral coordinate, heights with a second decimal, non-identity reading order.")
ASSUMPTIONS = ["lines without an index are expected back with their position in the region as index (what the writer emits)",
               "lines without heights must come back with two finite non-negative heights (they are guessed from the polygon)"]

SPECIAL = ["<", ">", "&", '"', "'", "]]>", "<!--", "&amp;", " ", "  ", "\t", "\n", "\r", "é", "é", "אב",
           "ال", "\U0001F600", "\U00020000", "​", " ", "�", "x"]


def xml_text():
    from hypothesis import strategies as st
    legal = st.characters(min_codepoint=0x20, max_codepoint=0x10FFFF, blacklist_categories=("Cs",),
                          blacklist_characters="￾￿")
    piece = st.sampled_from(SPECIAL) | legal | st.sampled_from("abc \t\n")
    short = st.lists(piece, max_size=8).map("".join)
    long = st.lists(piece, min_size=120, max_size=400).map("".join)          # a full text line / paragraph
    return st.integers(0, 24).flatmap(lambda k: long if k == 0 else short)


def coord():
    from hypothesis import strategies as st
    near_half = st.tuples(st.integers(100, 9000), st.sampled_from([1e-5, -1e-5, 4e-5, -4e-5, 2e-6, -2e-6])).map(lambda t: t[0] + 0.5 + t[1])
    return st.one_of(st.integers(-50, 3000).map(float), st.integers(-100, 6000).map(lambda k: k / 2.0), near_half,
                     st.floats(-1e4, 1e4, allow_nan=False, allow_infinity=False, width=32).map(float))


def points(lo, hi):
    from hypothesis import strategies as st
    return st.lists(st.tuples(coord(), coord()), min_size=lo, max_size=hi)


def strat():
    from hypothesis import strategies as st
    idch = st.sampled_from("abcrl0123456789_-.") | st.sampled_from(["é", "ř", "中"])
    ident = st.lists(idch, min_size=1, max_size=6).map("".join) | st.sampled_from(["id_1", "id_r", "id_", "r1-l001", "id_id_2"])
    height = st.one_of(st.integers(0, 50000).map(lambda k: k / 100.0), st.integers(0, 5000).map(lambda k: k / 10.0 + 0.05),
                       st.floats(0, 500, allow_nan=False, width=32).map(float))

    @st.composite
    def page(draw):
        pid = draw(st.sampled_from(["page.jpg", "a b.c.png", "scan 001", "ř/ž.tif", "x"]) | st.text(
            st.characters(min_codepoint=0x20, max_codepoint=0x2FFF, blacklist_categories=("Cs", "Cc")), min_size=1, max_size=8))
        size = (draw(st.integers(0, 5000)), draw(st.integers(0, 5000)))
        many = draw(st.integers(0, 5)) == 0        # pages with many (small) regions: partial reading orders leave several unlisted
        n_reg = draw(st.integers(8, 24)) if many else draw(st.integers(0, 5))
        rids = draw(st.lists(ident, min_size=n_reg, max_size=n_reg, unique=True)) if not many else ["m%02d" % k for k in range(n_reg)]
        used = set()
        regions = []
        for rid in rids:
            lines = []
            n_lines = draw(st.integers(0, 4)) if not many else draw(st.integers(0, 1))
            if not many and draw(st.integers(0, 19)) == 0:
                n_lines = draw(st.integers(30, 70))        # a full page of lines in one region
            for _ in range(n_lines):
                lid = draw(ident.filter(lambda s: s not in used))
                used.add(lid)
                tr = draw(st.one_of(st.none(), st.just(""), xml_text()))
                conf = None
                if tr is not None and draw(st.booleans()):
                    conf = draw(st.one_of(st.sampled_from([0.0, 1.0, 0.5, 0.0005, 0.9995]), st.floats(0, 1, allow_nan=False)))
                lines.append(dict(id=lid, index=draw(st.one_of(st.none(), st.integers(0, 999))),
                                  baseline=draw(points(2, 6)), polygon=draw(points(4, 10)),
                                  heights=draw(st.one_of(st.none(), st.tuples(height, height))),
                                  transcription=tr, conf=conf))
            regions.append(dict(id=rid, type=draw(st.one_of(st.none(), st.sampled_from(["paragraph", "heading", "x y", "TOC-entry", "page-number", "signature-mark", "Überschrift", "other", " caption"]))),
                                polygon=draw(points(3, 8)), text=draw(st.one_of(st.none(), st.just(""), xml_text())),
                                lines=lines))
        ro_mode = draw(st.sampled_from(["none", "perm", "partial", "foreign", "identity"]))
        ro = None
        if ro_mode != "none":
            ids = list(rids)
            if ro_mode == "identity":
                order = ids
            else:
                order = list(draw(st.permutations(ids)))
            if ro_mode == "partial" and order:
                order = order[:draw(st.integers(0, len(order)))]
            idx = draw(st.lists(st.integers(0, 50), min_size=len(order), max_size=len(order), unique=True))
            if ro_mode != "identity":
                pass
            else:
                idx = sorted(idx)
            ro = dict(zip(order, idx))
            if ro_mode == "foreign":
                ro["not_on_page"] = draw(st.integers(0, 50))
        return dict(id=pid, size=size, regions=regions, reading_order=ro,
                    version=draw(st.sampled_from(["2019", "2013"])), via=draw(st.sampled_from(["string", "bytesio", "file"])))
    return page()


def build_layout(m):
    from pero_ocr.core.layout import PageLayout, RegionLayout, TextLine
    pl = PageLayout(id=m["id"], page_size=tuple(m["size"]))
    for r in m["regions"]:
        reg = RegionLayout(r["id"], np.asarray(r["polygon"], dtype=np.float64), r["type"])
        reg.transcription = r["text"]
        for k, l in enumerate(r["lines"]):
            # what the stages of the pipeline leave on a line differs in container and number type: float64 / float32 arrays
            # (or int64 when every coordinate is whole), heights as list / tuple / array, numpy scalars for index and confidence
            rep = (len(m["id"]) + len(r["id"]) + k) % 4
            whole = all(float(x) == int(x) for p_ in l["baseline"] + l["polygon"] for x in p_)
            f32 = all(float(np.float32(x)) == float(x) for p_ in l["baseline"] + l["polygon"] for x in p_)
            dt = np.int64 if (rep == 1 and whole) else (np.float32 if (rep == 2 and f32) else np.float64)
            heights = None
            if l["heights"] is not None:
                heights = [list, tuple, lambda h: np.asarray(h, dtype=np.float64), list][rep](l["heights"])
            index = l["index"] if (l["index"] is None or rep != 3) else np.int64(l["index"])
            conf = l["conf"] if (l["conf"] is None or rep != 2) else np.float64(l["conf"])
            reg.lines.append(TextLine(id=l["id"], index=index, baseline=np.asarray(l["baseline"], dtype=dt),
                                      polygon=np.asarray(l["polygon"], dtype=dt), heights=heights,
                                      transcription=l["transcription"], transcription_confidence=conf))
        pl.regions.append(reg)
    if m["reading_order"] is not None:
        pl.reading_order = dict(m["reading_order"])
    return pl


def load(m, xml):
    from pero_ocr.core.layout import PageLayout
    if m["via"] == "string":
        pl = PageLayout()
        pl.from_pagexml_string(xml)
    elif m["via"] == "bytesio":
        pl = PageLayout(file=io.BytesIO(xml.encode("utf-8")))
    else:
        fd, path = tempfile.mkstemp(suffix=".xml", prefix="verif-c01-")
        try:
            with os.fdopen(fd, "w", encoding="utf-8") as f:
                f.write(xml)
            pl = PageLayout(file=path)
        finally:
            os.unlink(path)
    return pl


def strip_ts(xml):
    xml = re.sub(r"<Created>[^<]*</Created>", "<Created/>", xml)
    return re.sub(r"<LastChange>[^<]*</LastChange>", "<LastChange/>", xml)


def expected_order(m):
    regs = m["regions"]
    ro = m["reading_order"]
    if ro is None:
        return [r["id"] for r in regs]
    return [r["id"] for r in sorted(regs, key=lambda r: ro.get(r["id"], float("inf")))]


def doc_region_ids(xml):
    import lxml.etree as ET
    root = ET.fromstring(xml.encode("utf-8"))
    return [e.get("id") for e in root.iter() if isinstance(e.tag, str) and e.tag.split("}")[-1] == "TextRegion"]


def pts_ok(got, want):
    got = np.asarray(got)
    if got.shape != (len(want), 2):
        return False
    for (gx, gy), (wx, wy) in zip(got.tolist(), want):
        if gx != int(gx) or gy != int(gy):
            return False
        if abs(gx - wx) > 0.5 + 1e-9 or abs(gy - wy) > 0.5 + 1e-9:
            return False
    return True


def body(ctx, m):
    from pero_ocr.core.layout import PAGEVersion
    version = PAGEVersion.PAGE_2019_07_15 if m["version"] == "2019" else PAGEVersion.PAGE_2013_07_15
    brief = lambda: "page=%r" % ({k: m[k] for k in ("id", "size", "reading_order", "version", "via")},) + " regions=%r" % (m["regions"],)
    pl = build_layout(m)
    x1 = ctx.must("export_raises", pl.to_pagexml_string, version=version)
    # exporting does not change what is exported: a second export of the same object is the same document
    x1b = ctx.must("export_raises", pl.to_pagexml_string, version=version)
    ctx.check(strip_ts(x1) == strip_ts(x1b), "second_export_of_same_layout_differs", lambda: "%s\n---\n%s" % (x1[:2000], x1b[:2000]))
    if m["via"] == "file":
        # saving to a file (to_pagexml) writes the document the string variant returns
        fd, path = tempfile.mkstemp(suffix=".xml", prefix="verif-c01-")
        os.close(fd)
        try:
            ctx.must("export_raises", pl.to_pagexml, path, version=version)
            with open(path, encoding="utf-8") as f:
                x1f = f.read()
        finally:
            os.unlink(path)
        ctx.check(strip_ts(x1f) == strip_ts(x1), "file_export_differs_from_string_export", lambda: "%s\n---\n%s" % (x1f[:2000], x1[:2000]))
    l1 = ctx.must("import_raises", load, m, x1)
    order = expected_order(m)
    ctx.event("version:" + m["version"])
    ctx.event("via:" + m["via"])
    # --- reading order -------------------------------------------------
    if m["reading_order"] is not None:
        ctx.check([r.id for r in pl.regions] == order, "regions_not_held_in_reading_order_after_export",
                  lambda: "held %r expected %r; " % ([r.id for r in pl.regions], order) + brief())
    ctx.check(doc_region_ids(x1) == order, "regions_not_written_in_reading_order",
              lambda: "document order %r expected %r; " % (doc_region_ids(x1), order) + brief())
    ctx.check([r.id for r in l1.regions] == order, "loaded_region_order",
              lambda: "loaded %r expected %r; " % ([r.id for r in l1.regions], order) + brief())
    if m["reading_order"] is not None:
        ctx.check(dict(l1.reading_order) == dict(m["reading_order"]), "reading_order_not_preserved",
                  lambda: "loaded %r; " % (l1.reading_order,) + brief())
    # --- page ----------------------------------------------------------
    ctx.check(l1.id == m["id"], "page_id", lambda: "loaded %r; " % (l1.id,) + brief())
    ctx.check(tuple(l1.page_size) == tuple(m["size"]), "page_size", lambda: "loaded %r; " % (l1.page_size,) + brief())
    ctx.check(len(l1.regions) == len(m["regions"]), "region_count", brief)
    by_id = {r["id"]: r for r in m["regions"]}
    for reg in l1.regions:
        r = by_id[reg.id]
        ctx.check(reg.region_type == r["type"], "region_type", lambda: "region %r loaded %r; " % (reg.id, reg.region_type) + brief())
        ctx.check(pts_ok(reg.polygon, r["polygon"]), "region_polygon", lambda: "region %r loaded %r; " % (reg.id, np.asarray(reg.polygon).tolist()) + brief())
        ctx.check(reg.transcription == r["text"], "region_text", lambda: "region %r loaded %r want %r; " % (reg.id, reg.transcription, r["text"]) + brief())
        ctx.check([l.id for l in reg.lines] == [l["id"] for l in r["lines"]], "line_ids_or_order",
                  lambda: "region %r loaded %r; " % (reg.id, [l.id for l in reg.lines]) + brief())
        for pos, (line, ml) in enumerate(zip(reg.lines, r["lines"])):
            where = lambda: "line %r loaded %r; " % (ml, {k: (np.asarray(v).tolist() if isinstance(v, np.ndarray) else v) for k, v in vars(line).items() if k in ("index", "baseline", "polygon", "heights", "transcription", "transcription_confidence")}) + brief()
            ctx.check(line.index == (ml["index"] if ml["index"] is not None else pos), "line_index", where)
            ctx.check(pts_ok(line.baseline, ml["baseline"]), "line_baseline", where)
            ctx.check(pts_ok(line.polygon, ml["polygon"]), "line_polygon", where)
            h = line.heights
            ok_h = h is not None and len(h) == 2 and all(math.isfinite(float(x)) and float(x) >= 0 for x in h)
            if ml["heights"] is not None:
                ok_h = ok_h and all(abs(float(a) - b) <= 0.05 + 1e-9 for a, b in zip(h, ml["heights"]))
            ctx.check(ok_h, "line_heights", where)
            ctx.check(line.transcription == ml["transcription"], "line_transcription", where)
            if ml["conf"] is None:
                ctx.check(line.transcription_confidence is None, "line_confidence", where)
            else:
                ctx.check(line.transcription_confidence is not None and abs(line.transcription_confidence - ml["conf"]) <= 0.0005 + 1e-12,
                          "line_confidence", where)
    # --- fixpoint ------------------------------------------------------
    x2 = ctx.must("export_raises", l1.to_pagexml_string, version=version)
    l2 = ctx.must("import_raises", load, m, x2)
    x3 = ctx.must("export_raises", l2.to_pagexml_string, version=version)
    ctx.check(strip_ts(x2) == strip_ts(x3), "export_not_a_fixpoint", lambda: "second export:\n%s\nthird export:\n%s" % (x2[:3000], x3[:3000]))
    # other version from the same loaded page is a fixpoint as well
    other = PAGEVersion.PAGE_2013_07_15 if m["version"] == "2019" else PAGEVersion.PAGE_2019_07_15
    y2 = ctx.must("export_raises", l2.to_pagexml_string, version=other)
    m2 = dict(m)
    l3 = ctx.must("import_raises", load, m2, y2)
    y3 = ctx.must("export_raises", l3.to_pagexml_string, version=other)
    ctx.check(strip_ts(y2) == strip_ts(y3), "export_not_a_fixpoint_other_version", lambda: "%s\n---\n%s" % (y2[:3000], y3[:3000]))
    # --- the reading order is edited on a page that has already been exported (an editor re-ordering regions; the dictionary is
    # changed in place, the page may have been deep-copied): the next export follows the new order
    if m["reading_order"] is not None and len(m["regions"]) >= 2:
        import copy as _copy
        edited = ctx.must("import_raises", load, m, x1)
        ctx.must("export_raises", edited.to_pagexml_string, version=version)
        if len(m["regions"]) % 2:
            edited = _copy.deepcopy(edited)
        ids_now = [r.id for r in edited.regions]
        for rank, rid in enumerate(reversed(ids_now)):
            edited.reading_order[rid] = rank
        for k_ in [k_ for k_ in edited.reading_order if k_ not in ids_now]:
            del edited.reading_order[k_]
        xe = ctx.must("export_raises", edited.to_pagexml_string, version=version)
        le = ctx.must("import_raises", load, m, xe)
        ctx.check([r.id for r in le.regions] == ids_now[::-1] and [r.id for r in edited.regions] == ids_now[::-1], "regions_not_held_in_reading_order_after_export",
                  lambda: "reading order reversed in place on an exported page: held %r, loaded %r, expected %r" % (
                      [r.id for r in edited.regions], [r.id for r in le.regions], ids_now[::-1]))
        ctx.event("reading_order_edited_after_export")
    # --- the validate_id export option prefixes every id with 'id_' and changes nothing else: same regions in the same order,
    # same lines, same geometry and text as the default export of the same page
    if m["via"] == "bytesio":
        xv = ctx.must("export_raises", pl.to_pagexml_string, version=version, validate_id=True)
        lv = ctx.must("import_raises", load, m, xv)
        a = [(r.id, [l.id for l in r.lines]) for r in l1.regions]
        b = [(r.id, [l.id for l in r.lines]) for r in lv.regions]
        ctx.check(b == [("id_" + rid, ["id_" + lid for lid in lids]) for rid, lids in a], "validate_id_export_changes_more_than_the_id_prefix",
                  lambda: "default export gives %r, validate_id export gives %r" % (a, b))
        same = all(np.array_equal(np.asarray(r1.polygon), np.asarray(r2.polygon)) and r1.transcription == r2.transcription and r1.region_type == r2.region_type
                   and all(np.array_equal(np.asarray(x.baseline), np.asarray(y.baseline)) and np.array_equal(np.asarray(x.polygon), np.asarray(y.polygon))
                           and x.transcription == y.transcription and x.index == y.index and x.transcription_confidence == y.transcription_confidence
                           for x, y in zip(r1.lines, r2.lines))
                   for r1, r2 in zip(l1.regions, lv.regions))
        ctx.check(same, "validate_id_export_changes_more_than_the_id_prefix", lambda: "geometry, text, types, indices or confidences differ; " + brief())
        ctx.event("validate_id_export")
    # --- a loaded page that is edited in place (an editor moving a region, a de-skew step) must not leak into later imports
    victim = ctx.must("import_raises", load, m, x1)
    for reg in victim.regions:
        for arr in [reg.polygon] + [a for l in reg.lines for a in (l.baseline, l.polygon)]:
            if isinstance(arr, np.ndarray) and arr.size:
                arr += 977
        for l in reg.lines:
            if isinstance(l.heights, list) and l.heights:
                l.heights[0] = 123.0
    again = ctx.must("import_raises", load, m, x1)
    x_again = ctx.must("export_raises", again.to_pagexml_string, version=version)
    ctx.check(strip_ts(x_again) == strip_ts(x2), "import_depends_on_edits_of_an_earlier_import",
              lambda: "the same document imported again after an earlier import had been edited in place:\n%s\n---\n%s" % (x_again[:2500], x2[:2500]))
    # --- classification ------------------------------------------------
    lines = [l for r in m["regions"] for l in r["lines"]]
    texts = [l["transcription"] or "" for l in lines] + [r["text"] or "" for r in m["regions"]]
    esc = any(any(ch in "<>&\"'" or ord(ch) > 127 or ch in "\t\n\r" for ch in t) for t in texts)
    frac = any(x != int(x) for r in m["regions"] for l in r["lines"] for p in l["baseline"] + l["polygon"] for x in p)
    h2 = any(l["heights"] is not None and any(abs(h * 10 - round(h * 10)) > 1e-6 for h in l["heights"]) for l in lines)
    ro_nonid = m["reading_order"] is not None and order != [r["id"] for r in m["regions"]]
    for name, flag in (("escaping_or_non_ascii", esc), ("fractional_coordinate", frac), ("heights_second_decimal", h2), ("reading_order_reorders", ro_nonid)):
        if flag:
            ctx.event(name)
    if lines and (esc or frac or h2 or ro_nonid):
        ctx.nontrivial(repr(m))


UNITS = [
    Unit("roundtrip", "given", body=body, strategy=strat, quick=800, thorough=20000),
]
