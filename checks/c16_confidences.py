"""C16 - every reported confidence is a probability derived from normalised posteriors."""
import math

import numpy as np
from scipy import sparse

from vlib.core import Unit

PROPERTY = "C16"
LEVEL = "exploration"
RULE = ("Logit matrices (engine-style sparse-with-floor and fully stored) built around drawn label sequences (so that "
        "the labels are alignable) with drawn peakiness/confusions, equal-length 'transformer' matrices, per-frame "
        "shift constants in [-5,5]; hypothesis bags of 1-8 hypotheses with finite scores, with/without LM scores, LM "
        "weights >= 0; thresholds in [0,1] and {-1,2}. Oracle: range [0,1], normalisation to 1, invariance under a "
        "per-frame constant (fully stored matrices), one-hot -> 1, monotonicity in the threshold and agreement with a "
        "float64 recomputation. Non-trivial: T>=3, >=2 labels and a frame whose best class is not the aligned one "
        "(lines); >=2 hypotheses with LM scores (bags).")
ASSUMPTIONS = ["lines are shorter than 1000 frames (get_line_confidence uses 1000 as an end sentinel)",
               "shift invariance is asserted for fully stored matrices only (pruned entries sit at a fixed floor)"]

CHARS = list("abcdef") + ["​"]


def strat_line():
    from hypothesis import strategies as st

    @st.composite
    def case(draw):
        C = draw(st.integers(2, 7))
        labels = draw(st.lists(st.integers(0, C - 2), min_size=1, max_size=8))
        if draw(st.integers(0, 11)) == 0:       # a text line of ordinary length: 50-100 characters
            labels = draw(st.lists(st.integers(0, C - 2), min_size=49, max_size=100))
        return dict(C=C, labels=labels, seed=draw(st.integers(0, 2 ** 31 - 1)),
                    confuse=draw(st.sampled_from([0.0, 0.3, 0.8])), peak=draw(st.sampled_from([(6.0, 14.0), (1.0, 3.0), (25.0, 30.0)])),
                    full=draw(st.booleans()), shifts_seed=draw(st.integers(0, 2 ** 31 - 1)),
                    window=draw(st.booleans()), tight=draw(st.integers(0, 5)) == 0)
    return case()


def make_line(case, shift=None, onehot=False):
    from pero_ocr.core.layout import TextLine
    from vlib.pages import frames_for_labels, logits_for_path, sparsify
    rs = np.random.RandomState(case["seed"])
    C = case["C"]
    blank = C - 1
    path = frames_for_labels(case["labels"], blank, rs)
    a = rs.randint(0, 3)
    b = rs.randint(0, 3)
    if case.get("tight") and all(x != y for x, y in zip(case["labels"], case["labels"][1:])):
        # the valid window holds exactly one frame per character (no blanks in between), padding frames in front
        path = list(case["labels"])
        a = 1 + rs.randint(0, 3)
    full = [blank] * a + path + [blank] * b
    dense = logits_for_path(full, C, rs, peak=case["peak"], confuse=case["confuse"], overshoot=0.3)
    if onehot:
        dense = np.full_like(dense, -60.0)
        for t, c in enumerate(full):
            dense[t, c] = 40.0
    if shift is not None:
        dense = dense + shift[:len(full), None].astype(np.float32)
        dense[dense == 0] = 1e-3
    if case["full"] or onehot and False:
        m = sparse.csc_matrix(dense)
    else:
        m = sparsify(dense)
    line = TextLine(id="l", logits=m, characters=CHARS[:C - 1] + [CHARS[-1]], logit_coords=[a, a + len(path)],
                    transcription="".join(CHARS[c] for c in case["labels"]))
    return line, full, dense


def line_numbers(ctx, line, labels, window, forced=None):
    """all confidences derived from a line's logits; `forced` = (aligned_letters, frame alignment) to reuse."""
    from pero_ocr.core.confidence_estimation import get_line_confidence, get_letter_confidence
    from pero_ocr.core.force_alignment import align_text, force_align
    from pero_ocr.document_ocr.page_parser import PageParser
    out = {}
    labels = np.asarray(labels)
    if window:
        lp = line.get_full_logprobs()[line.logit_coords[0]:line.logit_coords[1]]
    else:
        lp = line.get_full_logprobs()
    al = align_text(-lp, labels, lp.shape[1] - 1)
    out["al"] = [int(x) for x in al]
    out["lp"] = np.asarray(lp, dtype=np.float64)
    if forced is not None:
        out["line_conf"] = np.asarray(ctx.must("get_line_confidence_raises", get_line_confidence, line, labels, np.asarray(forced[0]), lp), dtype=np.float64)
    elif window:
        out["line_conf"] = np.asarray(ctx.must("get_line_confidence_raises", get_line_confidence, line, labels, al, lp), dtype=np.float64)
    else:
        out["line_conf"] = np.asarray(ctx.must("get_line_confidence_raises", get_line_confidence, line, labels), dtype=np.float64)
    out["page_conf"] = float(ctx.must("compute_line_confidence_raises", PageParser.compute_line_confidence, line))
    dl = line.get_dense_logits()
    ali = force_align(-line.get_full_logprobs(), list(labels), dl.shape[1] - 1) if forced is None else forced[1]
    out["ali"] = [int(x) for x in ali]
    out["letter"] = np.asarray(ctx.must("get_letter_confidence_raises", get_letter_confidence, dl, ali, dl.shape[1] - 1), dtype=np.float64)
    return out


def body_line(ctx, case):
    labels = case["labels"]
    line, full, dense = make_line(case)
    T, C = dense.shape
    desc = lambda: "case=%r" % (case,)
    nums = line_numbers(ctx, line, labels, case["window"])
    lc = nums["line_conf"]
    # asking again changes nothing: the same line object gives the same numbers the second time (and its logits are untouched)
    stored = line.logits.copy()
    nums_again = line_numbers(ctx, line, labels, case["window"])
    ctx.check(np.array_equal(nums_again["line_conf"], lc) and nums_again["page_conf"] == nums["page_conf"] and np.array_equal(nums_again["letter"], nums["letter"])
              and np.array_equal(nums_again["lp"], nums["lp"]), "confidences_change_when_asked_again",
              lambda: "first %r / %r, second %r / %r; " % (lc, nums["page_conf"], nums_again["line_conf"], nums_again["page_conf"]) + desc())
    ctx.check((line.logits != stored).nnz == 0, "confidence_query_alters_the_stored_logits", desc)
    ctx.check(lc.shape == (len(labels),) and np.all(np.isfinite(lc)) and np.all(lc >= 0) and np.all(lc <= 1 + 1e-9),
              "char_confidence_out_of_range", lambda: "confidences %r; " % (lc,) + desc())
    # bounds that follow from the definition "aligned label probability minus best competing probability, clipped at 0"
    # whatever the exact extent of the competing window: the aligned frame belongs to it, the whole line contains it
    P = np.exp(nums["lp"])
    al = nums["al"]
    shortcut = line.logits.shape[0] == len(labels)
    for i, lab in enumerate(labels):
        p_lab = float(P[al[i], lab])
        ctx.check(lc[i] <= p_lab + 1e-5, "char_confidence_exceeds_aligned_label_probability",
                  lambda: "char %d: confidence %r, posterior of its label at its frame %r; " % (i, lc[i], p_lab) + desc())
        if shortcut:
            continue
        skip = {lab, C - 1}
        if i > 0:
            skip.add(labels[i - 1])
        if i + 1 < len(labels):
            skip.add(labels[i + 1])
        others = [c for c in range(C) if c not in skip]
        if not others:
            continue
        q_here = float(P[al[i], others].max())
        q_any = float(P[:, others].max())
        ctx.check(lc[i] <= max(0.0, p_lab - q_here) + 1e-5, "char_confidence_ignores_competing_symbol",
                  lambda: "char %d: confidence %r, label %r, best competing symbol at the same frame %r; " % (i, lc[i], p_lab, q_here) + desc())
        ctx.check(lc[i] >= max(0.0, p_lab - q_any) - 1e-5, "char_confidence_below_definition",
                  lambda: "char %d: confidence %r, label %r, best competing symbol anywhere on the line %r; " % (i, lc[i], p_lab, q_any) + desc())
    ctx.check(0 <= nums["page_conf"] <= 1 + 1e-9, "line_confidence_out_of_range", lambda: "%r; " % nums["page_conf"] + desc())
    if case["seed"] % 4 == 0:
        # the degenerate line: a recogniser that returned no output frames at all (empty transcription)
        from pero_ocr.core.layout import TextLine
        from pero_ocr.document_ocr.page_parser import PageParser
        empty = TextLine(id="e", logits=sparse.csc_matrix((0, C), dtype=np.float32), characters=list(line.characters), logit_coords=[0, 0], transcription="")
        v = float(ctx.must("compute_line_confidence_raises", PageParser.compute_line_confidence, empty))
        ctx.check(0.0 <= v <= 1.0 + 1e-9, "line_confidence_out_of_range", lambda: "line without output frames: %r" % v)
        ctx.event("line_without_frames")
    le = nums["letter"]
    ctx.check(le.shape == (len(labels),) and np.all(le <= 1e-9) and np.all(np.exp(le) >= 0), "letter_confidence_not_log_prob",
              lambda: "%r; " % (le,) + desc())
    # independent float64 recomputation of the page-level confidence: min over runs of equal best class of the max best prob
    d64 = line.get_dense_logits().astype(np.float64)
    p = np.exp(d64 - np.logaddexp.reduce(d64, axis=1)[:, None])
    best, bp = p.argmax(axis=1), p.max(axis=1)
    runs, cur, curp = [], None, 0.0
    for b_, q in zip(best, bp):
        if b_ != cur:
            if cur is not None:
                runs.append(curp)
            cur, curp = b_, q
        else:
            curp = max(curp, q)
    runs.append(curp)
    margin = np.sort(p, axis=1)
    unique_best = np.all(margin[:, -1] - margin[:, -2] > 1e-5) if C > 1 else True
    if unique_best:
        ctx.check(abs(nums["page_conf"] - min(runs)) < 1e-5, "line_confidence_not_min_of_run_maxima",
                  lambda: "got %r want %r; " % (nums["page_conf"], min(runs)) + desc())
    # the confidence PageParser leaves on the line is that of the logits the line carries *now*: a line that already has a
    # confidence (a page read from PAGE XML with conf values, a second pass, a page that went through the ALTO export) and
    # then gets logits must not keep the stale value
    from pero_ocr.core.layout import PageLayout, RegionLayout
    from pero_ocr.document_ocr.page_parser import PageParser
    pp = object.__new__(PageParser)
    pp.run_layout_parser = pp.run_line_cropper = pp.run_ocr = pp.run_decoder = False
    pp.filter_confident_lines_threshold = -1
    page = PageLayout(id="p", page_size=(100, 100))
    reg = RegionLayout("r", np.asarray([[0, 0], [100, 0], [100, 100], [0, 100]]))
    reg.lines = [line]
    page.regions = [reg]
    stale = (None, 0.25, 1.0, 0.0)[case["seed"] % 4]
    line.transcription_confidence = stale
    ctx.must("page_parser_raises", pp.process_page, None, page)
    got_pc = line.transcription_confidence
    ctx.check(got_pc is not None and abs(float(got_pc) - nums["page_conf"]) < 1e-9, "page_parser_keeps_a_stale_line_confidence",
              lambda: "line carried %r before, PageParser left %r, the line's logits give %r; " % (stale, got_pc, nums["page_conf"]) + desc())
    line.transcription_confidence = None
    # shift invariance (fully stored matrices)
    if case["full"]:
        rs = np.random.RandomState(case["shifts_seed"])
        shift = rs.uniform(-5, 5, size=T + 8)
        line2, _, _ = make_line(case, shift=shift)
        nums2 = line_numbers(ctx, line2, labels, case["window"])
        if nums2["al"] != nums["al"] or nums2["ali"] != nums["ali"]:
            # a near-tie between two minimum-cost alignments flipped with the float noise of the shift:
            # compare with the original alignment supplied explicitly
            ctx.event("alignment_flipped_by_shift")
            nums2 = line_numbers(ctx, line2, labels, case["window"], forced=(nums["al"], nums["ali"]))
        ctx.check(np.allclose(nums2["line_conf"], lc, atol=1e-5), "char_confidence_changes_with_frame_constant",
                  lambda: "before %r after %r; " % (lc, nums2["line_conf"]) + desc())
        ctx.check(abs(nums2["page_conf"] - nums["page_conf"]) < 1e-5, "line_confidence_changes_with_frame_constant",
                  lambda: "before %r after %r; " % (nums["page_conf"], nums2["page_conf"]) + desc())
        ctx.check(np.allclose(nums2["letter"], le, atol=1e-4), "letter_confidence_changes_with_frame_constant", desc)
        ctx.event("shift_invariance_checked")
    # one-hot posteriors
    line3, _, _ = make_line(case, onehot=True)
    nums3 = line_numbers(ctx, line3, labels, case["window"])
    ctx.check(np.all(np.abs(nums3["line_conf"] - 1) < 1e-6) and abs(nums3["page_conf"] - 1) < 1e-6 and np.all(np.abs(nums3["letter"]) < 1e-6),
              "one_hot_not_confidence_one", lambda: "%r; " % (nums3,) + desc())
    # transformer branch: as many rows as labels
    from pero_ocr.core.layout import TextLine
    from pero_ocr.core.confidence_estimation import get_line_confidence
    rs = np.random.RandomState(case["seed"] ^ 0x5a5a)
    td = rs.uniform(-8, 8, size=(len(labels), C)).astype(np.float32)
    td[td == 0] = 0.1
    tl = TextLine(id="t", logits=sparse.csc_matrix(td))
    tc = np.asarray(ctx.must("get_line_confidence_raises", get_line_confidence, tl, np.asarray(labels)), dtype=np.float64)
    want = np.exp(td.astype(np.float64) - np.logaddexp.reduce(td.astype(np.float64), axis=1)[:, None])[np.arange(len(labels)), labels]
    ctx.check(tc.shape == (len(labels),) and np.all(tc >= 0) and np.all(tc <= 1 + 1e-9) and np.allclose(tc, want, atol=1e-5),
              "transformer_confidence_not_posterior", lambda: "got %r want %r; " % (tc, want) + desc())
    off_path = any(int(np.argmax(dense[t])) != full[t] for t in range(T))
    if off_path:
        ctx.event("frame_with_other_best_class")
    if T >= 3 and len(labels) >= 2 and off_path:
        ctx.nontrivial(("line", repr(case)))


# ---------------------------------------------------------------- ALTO word / line confidences under per-frame constants
def body_alto(ctx, case):
    import logging
    import re
    from pero_ocr.core.layout import PageLayout, RegionLayout
    from pero_ocr.core.force_alignment import align_text
    logging.getLogger("pero_ocr.core.layout").setLevel(logging.CRITICAL)
    case = dict(case, full=True)
    labels = case["labels"]
    desc = lambda: "case=%r" % (case,)

    def export(shift, prior=None, quality=False):
        line, full, dense = make_line(case, shift=shift)
        line.transcription_confidence = prior
        T = dense.shape[0]
        line.baseline = np.asarray([[10.0, 60.0], [10.0 + 9 * T, 62.0]])
        line.heights = [20.0, 8.0]
        line.polygon = np.asarray([[10.0, 40.0], [10.0 + 9 * T, 42.0], [10.0 + 9 * T, 70.0], [10.0, 68.0]])
        # blanks between some characters so that there are several words
        text = "".join(CHARS[c] for c in labels)
        line.transcription = text
        pl = PageLayout(id="p", page_size=(200, 40 + 9 * T))
        reg = RegionLayout("r", np.asarray([[0, 0], [30 + 9 * T, 0], [30 + 9 * T, 150], [0, 150]], dtype=np.float64))
        reg.lines = [line]
        pl.regions = [reg]
        lp = line.get_full_logprobs()[line.logit_coords[0]:line.logit_coords[1]]
        al = [int(x) for x in align_text(-lp, np.asarray(labels), lp.shape[1] - 1)]
        if quality:
            # PageLayout.get_quality(): the sibling entry point that estimates the same per-character confidences
            q = ctx.must("get_quality_raises", pl.get_quality)
            return q, line.transcription_confidence, al, T
        xml = ctx.must("alto_export_raises", pl.to_altoxml_string)
        wcs = [float(x) for x in re.findall(r'WC="([^"]+)"', xml)]
        return wcs, line.transcription_confidence, al, T
    wc0, conf0, al0, T = export(None)
    # a line that already carries a confidence (loaded from PAGE XML, set by an earlier stage): the exported numbers
    # are computed from the posteriors all the same
    prior = [1.0, 1, 0.37, 0.0][case["seed"] % 4]
    wcp, confp, _, _ = export(None, prior=prior)
    ctx.check(wcp == wc0, "word_confidences_depend_on_stored_line_confidence",
              lambda: "stored %r: WC %r, without %r; " % (prior, wcp, wc0) + desc())
    ctx.check(confp is not None and abs(float(confp) - float(conf0)) < 1e-12, "line_confidence_after_export_depends_on_stored_value",
              lambda: "stored %r: %r, without %r; " % (prior, confp, conf0) + desc())
    q, confq, _, _ = export(None, quality=True)
    ctx.check(confq is not None and abs(float(confq) - float(conf0)) < 1e-9, "get_quality_line_confidence_differs_from_alto_export",
              lambda: "get_quality stores %r, ALTO export %r; " % (confq, conf0) + desc())
    ctx.check(0.0 <= float(q) <= 1.0 + 1e-9, "page_quality_out_of_range", lambda: "%r; " % (q,) + desc())
    rs = np.random.RandomState(case["shifts_seed"])
    shift = rs.uniform(-5, 5, size=T + 8)
    wc1, conf1, al1, _ = export(shift)
    for w in wc0 + wc1:
        ctx.check(0.0 <= w <= 1.0, "word_confidence_out_of_range", lambda: "%r %r; " % (wc0, wc1) + desc())
    ctx.check(conf0 is not None and 0.0 <= conf0 <= 1.0 + 1e-9, "alto_line_confidence_out_of_range", lambda: "%r; " % (conf0,) + desc())
    if al0 != al1:
        ctx.event("alignment_flipped_by_shift")
        return
    ctx.check(len(wc0) == len(wc1) and all(abs(a - b) <= 0.011 for a, b in zip(wc0, wc1)), "word_confidence_changes_with_frame_constant",
              lambda: "WC before %r after %r; " % (wc0, wc1) + desc())
    ctx.check(abs(float(conf0) - float(conf1)) < 1e-5, "alto_line_confidence_changes_with_frame_constant",
              lambda: "line confidence before %r after %r; " % (conf0, conf1) + desc())
    if len(labels) >= 2 and T >= 2 * len(labels):
        ctx.nontrivial(("alto", repr(case)))


# ---------------------------------------------------------------- thresholds
def strat_thr():
    from hypothesis import strategies as st
    thr = st.one_of(st.sampled_from([-1.0, 0.0, 0.5, 1.0, 2.0]), st.floats(0, 1, allow_nan=False))
    return st.tuples(st.integers(1, 12), st.integers(2, 7), st.integers(0, 2 ** 31 - 1), st.sampled_from([0.5, 2.0, 8.0]), thr, thr)


def body_thr(ctx, case):
    from pero_ocr.document_ocr.page_parser import line_confident_enough
    T, C, seed, scale, a, b = case
    rs = np.random.RandomState(seed)
    x = (rs.uniform(-1, 1, size=(T, C)) * scale).astype(np.float32)
    form = seed % 4
    if form in (1, 2):
        # what the test is given is not always raw: log-softmax rows (form 1), or log-softmax rows of which the later frames
        # carry a per-frame constant again (form 2); per-frame constants never change posteriors
        x64n = x.astype(np.float64)
        x = (x64n - np.logaddexp.reduce(x64n, axis=1)[:, None]).astype(np.float32)
        if form == 2 and T >= 2:
            x[1:] += rs.uniform(-3, 3, size=(T - 1, 1)).astype(np.float32)
        ctx.event("partly_normalised_matrix" if form == 2 else "normalised_matrix")
    lo, hi = min(a, b), max(a, b)
    r_hi = bool(ctx.must("line_confident_enough_raises", line_confident_enough, x.copy(), hi))
    r_lo = bool(ctx.must("line_confident_enough_raises", line_confident_enough, x.copy(), lo))
    ctx.check((not r_hi) or r_lo, "confident_test_not_monotone", lambda: "case=%r: enough at %r but not at %r" % (case, hi, lo))
    x64 = x.astype(np.float64)
    p = np.exp(x64 - np.logaddexp.reduce(x64, axis=1)[:, None])
    worst = p.max(axis=1).min()
    for thr, r in ((hi, r_hi), (lo, r_lo)):
        if abs(worst - thr) > 1e-6:
            ctx.check(r == (worst > thr), "confident_test_disagrees_with_min_max_posterior",
                      lambda: "case=%r threshold %r min-max posterior %r result %r" % (case, thr, worst, r))
    ctx.check(not bool(line_confident_enough(x.copy(), 1.0 + 1e-6)) and bool(line_confident_enough(x.copy(), -1e-9)),
              "confident_test_range", lambda: "case=%r" % (case,))
    if T >= 3 and lo != hi and r_lo != r_hi:
        ctx.nontrivial(("thr", case))


# ---------------------------------------------------------------- the confident-line test as PageDecoder applies it
def strat_page_thr():
    from hypothesis import strategies as st
    thr = st.one_of(st.sampled_from([-1.0, 0.0, 1e-6, 0.05, 0.5, 0.999, 1.0, 2.0]), st.floats(0, 1, allow_nan=False))
    return st.tuples(st.lists(st.tuples(st.integers(1, 8), st.integers(0, 2 ** 31 - 1), st.sampled_from([0.3, 2.0, 9.0])), min_size=1, max_size=4),
                     st.lists(thr, min_size=2, max_size=4))


def body_page_thr(ctx, case):
    from pero_ocr.core.layout import PageLayout, RegionLayout, TextLine
    from pero_ocr.document_ocr.page_parser import PageDecoder
    from pero_ocr.decoding.decoders import GreedyDecoder, BLANK_SYMBOL
    from scipy import sparse as sp
    lines_spec, thrs = case
    C = 4

    def page():
        pl = PageLayout(id="p", page_size=(10, 10))
        reg = RegionLayout("r", np.zeros((4, 2)))
        for i, (T, seed, scale) in enumerate(lines_spec):
            rs = np.random.RandomState(seed)
            x = (rs.uniform(-1, 1, size=(T, C)) * scale).astype(np.float32)
            x[x == 0] = 0.1
            reg.lines.append(TextLine(id="l%d" % i, logits=sp.csc_matrix(x), transcription="PRIOR"))
        pl.regions = [reg]
        return pl
    kept = {}
    for thr in sorted(set(thrs)):
        dec = PageDecoder(GreedyDecoder(list("abc") + [BLANK_SYMBOL]), line_confidence_threshold=thr)
        pl = ctx.must("process_page_raises", dec.process_page, page())
        kept[thr] = [l.transcription == "PRIOR" and dec.lines_decoded <= len(lines_spec) for l in pl.lines_iterator()]
        # independent float64 recomputation of the test
        for l, k in zip(pl.lines_iterator(), kept[thr]):
            x = l.get_dense_logits().astype(np.float64)
            pmat = np.exp(x - np.logaddexp.reduce(x, axis=1)[:, None])
            worst = pmat.max(axis=1).min()
            if abs(worst - thr) > 1e-6:
                ctx.check(k == (worst > thr), "page_decoder_confident_test_disagrees_with_min_max_posterior",
                          lambda: "threshold %r min-max posterior %r line kept %r; case=%r" % (thr, worst, k, case))
    ts = sorted(kept)
    for a, b in zip(ts, ts[1:]):
        ctx.check(all((not kb) or ka for ka, kb in zip(kept[a], kept[b])), "page_decoder_confident_test_not_monotone",
                  lambda: "lines kept at threshold %r: %r, at %r: %r; case=%r" % (a, kept[a], b, kept[b], case))
    if len(ts) >= 2 and any(kept[ts[0]]) and not all(kept[ts[-1]]):
        ctx.nontrivial(("page_thr", case))


# ---------------------------------------------------------------- bags
def strat_bag():
    from hypothesis import strategies as st
    sc = st.floats(-60, 0, allow_nan=False) | st.sampled_from([0.0, -1e-9, -745.0])
    hyp = st.tuples(st.text("abc", max_size=4), sc, sc)
    return st.tuples(st.lists(hyp, min_size=1, max_size=8, unique_by=lambda h: h[0]), st.booleans(),
                     st.one_of(st.sampled_from([0.0, 1.0, 0.5, 3.0]), st.floats(0, 10, allow_nan=False)))


def body_bag(ctx, case):
    from pero_ocr.decoding.bag_of_hypotheses import BagOfHypotheses
    hyps, with_lm, w = case
    boh = BagOfHypotheses(lm_weight=w)
    for t, v, l in hyps:
        boh.add(t, v, l if with_lm else None)
    desc = lambda: "case=%r" % (case,)
    post = ctx.must("posteriors_raises", boh.posteriors)
    post = [float(x) for x in post]
    ctx.check(all(math.isfinite(x) or x == float("-inf") for x in post) and all(x <= 1e-12 for x in post), "posterior_not_log_prob", lambda: "%r; " % (post,) + desc())
    ctx.check(abs(sum(math.exp(x) for x in post) - 1.0) < 1e-9, "posteriors_do_not_sum_to_one", lambda: "%r; " % (post,) + desc())
    conf = ctx.must("confidence_raises", boh.confidence)
    ctx.check(0 <= conf <= 1 + 1e-12 and abs(conf - math.exp(max(post))) < 1e-12, "bag_confidence_not_max_posterior", lambda: "%r; " % conf + desc())
    for (t, v, l), p in zip(hyps, post):
        tc = boh.transcript_confidence(t)
        ctx.check(0 <= tc <= 1 + 1e-12 and abs(tc - math.exp(p)) < 1e-12, "transcript_confidence", lambda: "%r %r; " % (t, tc) + desc())
    ctx.check(boh.transcript_confidence("zzz-not-there") == 0.0, "transcript_confidence_absent", desc)
    # independent recomputation
    tot = [v + (w * l if with_lm else 0.0) for _, v, l in hyps]
    mx = max(tot)
    z = mx + math.log(sum(math.exp(x - mx) for x in tot))
    ctx.check(all(abs(p - (x - z)) < 1e-9 for p, x in zip(post, tot)), "posteriors_not_softmax_of_totals", desc)
    # history on one bag: the public lm_weight is changed after a query (an LM-weight sweep over one n-best list) and more
    # hypotheses are added; every answer must equal that of a fresh bag in the same state
    for w2 in (0.0, w + 0.5, 1.0):
        boh.lm_weight = w2
        fresh = BagOfHypotheses(lm_weight=w2)
        for t, v, l in hyps:
            fresh.add(t, v, l if with_lm else None)
        p1 = [float(x) for x in boh.posteriors()]
        p2 = [float(x) for x in fresh.posteriors()]
        ctx.check(all(abs(a - b) < 1e-9 or a == b for a, b in zip(p1, p2)) and abs(sum(math.exp(x) for x in p1) - 1.0) < 1e-9,
                  "posteriors_stale_after_lm_weight_change", lambda: "weight %r -> %r: %r vs fresh %r; " % (w, w2, p1, p2) + desc())
        ctx.check(abs(boh.confidence() - fresh.confidence()) < 1e-12 and boh.best_hyp() == fresh.best_hyp() or len(set(round(x, 9) for x in p2)) < len(p2),
                  "bag_answers_depend_on_query_history", desc)
    boh.add("zz-extra", -3.0, -1.0 if with_lm else None)
    post3 = [float(x) for x in boh.posteriors()]
    ctx.check(len(post3) == len(hyps) + 1 and abs(sum(math.exp(x) for x in post3) - 1.0) < 1e-9, "posteriors_stale_after_add", desc)
    if len(hyps) >= 2 and with_lm:
        ctx.nontrivial(("bag", case))


UNITS = [
    Unit("lines", "given", body=body_line, strategy=strat_line, quick=1200, thorough=25000),
    Unit("alto_confidences", "given", body=body_alto, strategy=strat_line, quick=500, thorough=8000),
    Unit("threshold", "given", body=body_thr, strategy=strat_thr, quick=1000, thorough=20000),
    Unit("page_decoder_threshold", "given", body=body_page_thr, strategy=strat_page_thr, quick=500, thorough=6000),
    Unit("bags", "given", body=body_bag, strategy=strat_bag, quick=1000, thorough=20000),
]
