"""C12 - region sorting only permutes regions and always terminates."""
import configparser
import sys

import numpy as np

from vlib.core import Unit

PROPERTY = "C12"
LEVEL = "exploration"
RULE = ("Pages of 0-10 regions with unique ids: grids, columns, staircases overlapping in both axes (recursive "
        "fallback), nested and identical boxes, zero-width/zero-height boxes, arbitrary polygons; 0-3 lines per region, "
        "horizontal or commonly slanted (non-zero de-skew); both sorters with drawn parameters. Oracle: the region "
        "list afterwards is a permutation (by identity and id) of the input, every region keeps its lines (same "
        "objects, same order), ids and text; polygons and baselines equal the originals as point sequences up to an "
        "appended closing point and 1e-6*scale; a RecursionError (limit lowered) or any other exception is a "
        "violation. Non-trivial: >= 3 regions of which >= 2 overlap in both projections, or a non-zero de-skew angle.")
ASSUMPTIONS = ["coordinates lie in [0, 5000] (the smart sorter initialises its bounding box with 1e5 / 0)",
               "image width is chosen so that the naive sorter's eps is >= 1"]


def strat():
    from hypothesis import strategies as st

    def box(x0, y0, w, h):
        return [[x0, y0], [x0 + w, y0], [x0 + w, y0 + h], [x0, y0 + h]]

    @st.composite
    def page(draw):
        kind = draw(st.sampled_from(["grid", "columns", "stairs", "nested", "identical", "degenerate", "polygons", "random", "few", "newspaper", "lattice"]))
        regs = []
        if kind == "grid":
            nx, ny = draw(st.integers(1, 4)), draw(st.integers(1, 3))
            gap = draw(st.integers(-20, 40))
            for j in range(ny):
                for i in range(nx):
                    regs.append(box(100 + i * (300 + gap), 100 + j * (200 + gap), 300, 200))
        elif kind == "columns":
            for i in range(draw(st.integers(1, 4))):
                y = 100
                for j in range(draw(st.integers(1, 3))):
                    h = draw(st.integers(50, 400))
                    regs.append(box(100 + i * 500, y, draw(st.integers(200, 480)), h))
                    y += h + draw(st.integers(5, 60))
        elif kind == "stairs":
            n = draw(st.integers(2, 8))
            step = draw(st.integers(20, 120))
            for i in range(n):
                regs.append(box(100 + i * step, 100 + i * step, draw(st.integers(150, 400)), draw(st.integers(150, 400))))
            regs = list(draw(st.permutations(regs)))
        elif kind == "nested":
            x, y, w, h = 100, 100, 2000, 1500
            for i in range(draw(st.integers(2, 6))):
                regs.append(box(x, y, w, h))
                x += draw(st.integers(0, 100)); y += draw(st.integers(0, 100))
                w = max(10, w - draw(st.integers(100, 400))); h = max(10, h - draw(st.integers(100, 300)))
        elif kind == "identical":
            b = box(draw(st.integers(0, 500)), draw(st.integers(0, 500)), draw(st.integers(1, 500)), draw(st.integers(1, 500)))
            regs = [[list(p) for p in b] for _ in range(draw(st.integers(2, 6)))]
            if draw(st.booleans()):
                regs.append(box(700, 50, 100, 100))
        elif kind == "degenerate":
            for i in range(draw(st.integers(1, 6))):
                w = draw(st.sampled_from([0, 0, 1, 200]))
                h = draw(st.sampled_from([0, 0, 1, 150]))
                regs.append(box(draw(st.integers(0, 1500)), draw(st.integers(0, 1500)), w, h))
        elif kind == "lattice":
            # small whole-number layouts on a 10 px lattice: equal gaps, equal overlaps and equal sums are the rule
            for i in range(draw(st.integers(2, 8))):
                regs.append(box(10 * draw(st.integers(0, 12)), 10 * draw(st.integers(0, 12)), 10 * draw(st.integers(1, 10)), 10 * draw(st.integers(1, 10))))
        elif kind == "polygons":
            for i in range(draw(st.integers(1, 8))):
                pts = draw(st.lists(st.tuples(st.integers(0, 3000), st.integers(0, 3000)), min_size=3, max_size=7))
                regs.append([list(p) for p in pts])
        elif kind == "newspaper":
            # dozens of regions: a grid of articles with irregular heights
            for i in range(draw(st.integers(4, 7))):
                y = 100
                for j in range(draw(st.integers(4, 8))):
                    h = draw(st.integers(60, 300))
                    regs.append(box(100 + i * 420, y, draw(st.integers(300, 410)), h))
                    y += h + draw(st.integers(-10, 40))
        elif kind == "few":
            for i in range(draw(st.integers(0, 1))):
                regs.append(box(10, 10, 100, 50))
        else:
            for i in range(draw(st.integers(2, 10))):
                regs.append(box(draw(st.integers(0, 3000)), draw(st.integers(0, 3000)), draw(st.integers(1, 1200)), draw(st.integers(1, 900))))
        regs = regs[:10] if kind != "newspaper" else regs[:60]
        slant = draw(st.sampled_from([0.0, 0.0, 0.01, -0.03, 0.08, 0.0006, -0.0003, 0.002]))
        use_float = draw(st.booleans())
        out = []
        for k, poly in enumerate(regs):
            xs = [p[0] for p in poly]; ys = [p[1] for p in poly]
            x0, x1, y0 = min(xs), max(xs), min(ys)
            lines = []
            for li in range(draw(st.integers(0, 3))):
                ln = max(30, (x1 - x0) - draw(st.integers(0, 50)))
                by = y0 + 30 + 40 * li
                bl = [[x0 + 5, by], [x0 + 5 + ln / 2.0, by + slant * ln / 2.0], [x0 + 5 + ln, by + slant * ln]]
                if draw(st.booleans()):
                    bl = [bl[0], bl[2]]
                pl = [[p[0], p[1] - 20] for p in bl] + [[p[0], p[1] + 8] for p in reversed(bl)]
                lines.append(dict(baseline=bl, polygon=pl, text=draw(st.sampled_from([None, "", "abc", "x y"]))))
            out.append(dict(id="r%d" % k if draw(st.integers(0, 9)) else "reg-%d-é" % k, polygon=poly, lines=lines,
                            text=draw(st.sampled_from([None, "T"]))))
        return dict(regions=out, sorter=draw(st.sampled_from(["smart", "naive"])), use_float=use_float,
                    param=draw(st.sampled_from([0.1, 0.0, 0.05, 0.3, 0.5])), denom=draw(st.sampled_from([10, 1, 3, 50])),
                    width=draw(st.sampled_from([3000, 100, 1000])), twice=draw(st.booleans()), int_lines=draw(st.booleans()),
                    line_ids=draw(st.sampled_from(["page", "page", "region", "none"])),
                    # the sorter object is long-lived (PageParser keeps it for all pages): the page it handled before this one
                    history=draw(st.sampled_from([None, None, "slanted", "slanted", "level", "empty"])))
    return page()


def prior_page(kind):
    """a fixed earlier page for the same sorter object: two columns of three lines, tilted by 0.05 or level, or no regions."""
    if kind == "empty":
        regions = []
    else:
        sl = 0.05 if kind == "slanted" else 0.0
        regions = []
        for k, x0 in enumerate((100, 1500)):
            lines = []
            for li in range(3):
                by = 230 + 60 * li
                bl = [[x0 + 5, by], [x0 + 905, by + sl * 900]]
                lines.append(dict(baseline=bl, polygon=[[p[0], p[1] - 20] for p in bl] + [[p[0], p[1] + 8] for p in reversed(bl)], text="t"))
            regions.append(dict(id="h%d" % k, polygon=[[x0, 200], [x0 + 1000, 200], [x0 + 1000, 600], [x0, 600]], lines=lines, text=None))
    return build(dict(regions=regions, use_float=True))


def build(case):
    from pero_ocr.core.layout import PageLayout, RegionLayout, TextLine
    dt = np.float64 if case["use_float"] else np.int64
    pl = PageLayout(id="p", page_size=(4000, 4000))
    n = 0
    for r in case["regions"]:
        reg = RegionLayout(r["id"], np.asarray(r["polygon"], dtype=dt))
        reg.transcription = r["text"]
        for l in r["lines"]:
            if case.get("int_lines"):
                # layouts loaded from PAGE XML carry integer coordinates in integer arrays
                bl = np.round(np.asarray(l["baseline"], dtype=np.float64)).astype(np.int64)
                pg = np.round(np.asarray(l["polygon"], dtype=np.float64)).astype(np.int64)
            else:
                bl = np.asarray(l["baseline"], dtype=np.float64)
                pg = np.asarray(l["polygon"], dtype=np.float64)
            id_mode = case.get("line_ids", "page")
            lid = "l%d" % n if id_mode == "page" else (None if id_mode == "none" else "l%d" % len(reg.lines))
            tl = TextLine(id=lid, baseline=bl, polygon=pg, heights=[20, 8], transcription=l["text"])
            if n % 3 != 2:
                # the sorter runs after recognition as well: lines then carry their OCR results
                tl.crop = np.full((4, 6, 3), n % 251, dtype=np.uint8)
                tl.logits = ("logits-of-line", n)
                tl.characters = ["a", "b", str(n)]
                tl.logit_coords = [1, 5 + n]
                tl.transcription_confidence = 0.25 + (n % 3) / 4.0
                tl.index = n
            reg.lines.append(tl)
            n += 1
        pl.regions.append(reg)
    return pl


def same_points(got, want, tol):
    got = np.asarray(got, dtype=np.float64)
    want = np.asarray(want, dtype=np.float64)
    if got.shape == want.shape:
        return bool(np.all(np.abs(got - want) <= tol))
    # closing point(s) appended by the de-skew rotation through shapely
    n = len(want)
    if len(got) > n and got.shape[1:] == want.shape[1:] and np.all(np.abs(got[:n] - want) <= tol):
        return bool(np.all(np.abs(got[n:] - want[0]) <= tol))
    return False


def overlaps_both(a, b):
    ax0, ax1 = min(p[0] for p in a), max(p[0] for p in a)
    ay0, ay1 = min(p[1] for p in a), max(p[1] for p in a)
    bx0, bx1 = min(p[0] for p in b), max(p[0] for p in b)
    by0, by1 = min(p[1] for p in b), max(p[1] for p in b)
    return ax0 < bx1 and bx0 < ax1 and ay0 < by1 and by0 < ay1


def body(ctx, case):
    from pero_ocr.layout_engines.smart_sorter import SmartRegionSorter
    from pero_ocr.layout_engines.naive_sorter import NaiveRegionSorter
    cp = configparser.ConfigParser()
    cp.optionxform = str
    cp["S"] = {"FakeIntersectionParameter": str(case["param"]), "ImageWidthDenominator": str(case["denom"])}
    width = case["width"]
    if case["sorter"] == "naive" and width // case["denom"] < 1:
        width = case["denom"] * 5
    sorter = SmartRegionSorter(cp["S"]) if case["sorter"] == "smart" else NaiveRegionSorter(cp["S"])
    img = np.zeros((10, width, 3), dtype=np.uint8)
    pl = build(case)
    regs_before = list(pl.regions)
    snap = [(r, r.id, r.transcription, np.array(r.polygon, dtype=np.float64), list(r.lines),
             [(l, l.id, l.transcription, np.array(l.baseline), np.array(l.polygon),
               (l.crop, l.logits, l.characters, l.logit_coords, l.transcription_confidence, l.index, list(l.heights))) for l in r.lines]) for r in pl.regions]
    desc = lambda: "case=%r" % (case,)
    ctx.event("sorter:" + case["sorter"])
    scale = 1.0 + max([abs(float(x)) for r in case["regions"] for p in r["polygon"] for x in p] + [1.0])
    tol = 1e-6 * scale
    old = sys.getrecursionlimit()
    sys.setrecursionlimit(600)
    if case.get("history"):
        ctx.event("sorter_with_history:" + case["history"])
        try:
            with np.errstate(all="ignore"):
                sorter.process_page(img, prior_page(case["history"]))
        except Exception as e:  # noqa: BLE001
            ctx.fail("sorter_raises", "on the earlier page (%s): %s: %s; " % (case["history"], type(e).__name__, str(e)[:200]) + desc())
    try:
        for rep in range(2 if case["twice"] else 1):
            try:
                with np.errstate(all="ignore"):
                    out = sorter.process_page(img, pl)
            except RecursionError:
                ctx.fail("does_not_terminate", "unbounded recursion; " + desc())
            except Exception as e:  # noqa
                import traceback
                tb = traceback.extract_tb(e.__traceback__)
                where = [f for f in tb if "pero_ocr" in f.filename]
                ctx.fail("sorter_raises", "%s: %s at %s; " % (type(e).__name__, str(e)[:200], ("%s:%d" % (where[-1].filename.split("/")[-1], where[-1].lineno)) if where else "?") + desc())
            ctx.check(out is not None and hasattr(out, "regions"), "no_layout_returned", desc)
            pl = out
    finally:
        sys.setrecursionlimit(old)
    after = list(pl.regions)
    ctx.check(len(after) == len(regs_before) and sorted(map(id, after)) == sorted(map(id, regs_before)), "regions_not_a_permutation",
              lambda: "before %r after %r; " % ([r.id for r in regs_before], [r.id for r in after]) + desc())
    ctx.check(sorted(r.id for r in after) == sorted(r["id"] for r in case["regions"]), "region_ids_changed", desc)
    for (r, rid, rtext, poly, lines, linfo) in snap:
        ctx.check(r.id == rid and r.transcription == rtext, "region_id_or_text_changed", desc)
        ctx.check(len(r.lines) == len(lines) and all(a is b for a, b in zip(r.lines, lines)), "region_lines_changed", desc)
        ctx.check(same_points(r.polygon, poly, tol), "region_geometry_changed",
                  lambda: "region %r polygon %r was %r; " % (rid, np.asarray(r.polygon).tolist(), poly.tolist()) + desc())
        for (l, lid, lt, bl, lp, extra) in linfo:
            ctx.check(l.id == lid and l.transcription == lt, "line_id_or_text_changed", desc)
            now = (l.crop, l.logits, l.characters, l.logit_coords, l.transcription_confidence, l.index, list(l.heights))
            ctx.check(all((a is b) or (not isinstance(a, np.ndarray) and not isinstance(b, np.ndarray) and a == b) for a, b in zip(now, extra)), "line_lost_its_recognition_results",
                      lambda: "line %r: crop/logits/characters/window/confidence/index/heights were %r, are %r; " % (lid, extra[1:], now[1:]) + desc())
            ctx.check(same_points(l.baseline, bl, tol) and len(l.baseline) == len(bl), "line_baseline_changed",
                      lambda: "line %r baseline %r was %r; " % (lid, np.asarray(l.baseline).tolist(), bl.tolist()) + desc())
            ctx.check(same_points(l.polygon, lp, tol), "line_polygon_changed", lambda: "line %r; " % lid + desc())
    polys = [r["polygon"] for r in case["regions"]]
    n_ov = sum(1 for i in range(len(polys)) for j in range(i + 1, len(polys)) if overlaps_both(polys[i], polys[j]))
    skew = False
    if case["sorter"] == "smart" and len(case["regions"]) >= 2:
        best = max(case["regions"], key=lambda r: len(r["lines"]))
        skew = len(best["lines"]) >= 2 and any(l["baseline"][0][1] != l["baseline"][-1][1] for l in best["lines"])
    if skew:
        ctx.event("nonzero_deskew")
    if n_ov:
        ctx.event("overlap_in_both_axes")
    if len(case["regions"]) == 0:
        ctx.event("empty_page")
    if (len(polys) >= 3 and n_ov >= 1) or skew:
        ctx.nontrivial(repr(case))


UNITS = [
    Unit("sorters", "given", body=body, strategy=strat, quick=3000, thorough=30000, shards_quick=8),
]
