"""C11 - lines are assigned to the regions they lie in, clipped, with unique ids."""
import math

import numpy as np

from vlib.core import Unit
from vlib import geom

PROPERTY = "C11"
LEVEL = "exploration"
RULE = ("1-4 region polygons per page (convex hulls, star-shaped concave, rectilinear L/U, bow-ties with a pinch "
        "point; disjoint, overlapping, nested; float and integer-grid coordinates) and 0-8 detected lines built from "
        "horizontal chords of the regions (inside, crossing one edge, spanning the whole region - i.e. crossing a "
        "concave region twice), far-away and random lines; outlines from baseline_to_textline. Oracle without "
        "shapely: ray casting, point-segment distances and dense sampling classify every (line, region) pair as "
        "strictly inside / strictly outside / crossing and measure the inside runs. Second unit: "
        "LayoutExtractor.process_page (object.__new__, stub detector) over all option combinations, and "
        "TextlineExtractorSimple with a stub line detector: unique ids, lines inside their regions. Non-trivial: >= 2 "
        "regions, >= 1 crossing line and >= 1 inside line; distinct by the case.")
ASSUMPTIONS = ["regions with a pinch point are invalid for shapely; the code documents their replacement by the convex hull, which is the reference region then",
               "tolerance 1e-6*(1+coordinate scale) for 'inside'; clearance 0.5 px for the strict inside/outside classes"]


# ------------------------------------------------------------------ generators
def region_strategy(kinds=("convex", "star", "L", "U", "pinch", "box", "comb", "dent")):
    from hypothesis import strategies as st

    @st.composite
    def region(draw):
        kind = draw(st.sampled_from(list(kinds)))
        ox, oy = draw(st.integers(50, 1500)), draw(st.integers(50, 1500))
        integer = draw(st.booleans())
        valid = True
        if kind == "convex":
            pts = [(draw(st.integers(0, 600)), draw(st.integers(0, 400))) for _ in range(draw(st.integers(4, 8)))]
            poly = geom.convex_hull(pts)
            if len(poly) < 3:
                poly = [(0, 0), (300, 0), (300, 200), (0, 200)]
        elif kind == "star":
            n = draw(st.integers(5, 9))
            R = draw(st.integers(150, 400))
            poly = []
            for k in range(n):
                ang = 2 * math.pi * (k + draw(st.floats(0.0, 0.6, allow_nan=False))) / n
                r = R * draw(st.floats(0.35, 1.0, allow_nan=False))
                poly.append((R + r * math.cos(ang), R + r * math.sin(ang)))
        elif kind == "L":
            w, h = draw(st.integers(200, 600)), draw(st.integers(200, 500))
            a, b = draw(st.integers(40, w - 60)), draw(st.integers(40, h - 60))
            poly = [(0, 0), (a, 0), (a, b), (w, b), (w, h), (0, h)]
        elif kind == "U":
            w, h = draw(st.integers(300, 700)), draw(st.integers(200, 500))
            a = draw(st.integers(40, w // 2 - 40))
            c = draw(st.integers(40, w // 2 - 40))
            d = draw(st.integers(40, h - 60))
            t2 = draw(st.sampled_from([0, 1])) * draw(st.integers(5, d - 20))      # arms of unequal height
            poly = [(0, 0), (a, 0), (a, d), (w - c, d), (w - c, t2), (w, t2), (w, h), (0, h)]
        elif kind == "comb":
            # a body with 2-4 teeth of different widths and heights: lines across the teeth enter it several times
            nt = draw(st.integers(2, 4))
            h = draw(st.integers(200, 500))
            d = draw(st.integers(60, h - 60))
            poly, x = [], 0
            for i in range(nt):
                tw, top = draw(st.integers(25, 160)), draw(st.sampled_from([0, 1])) * draw(st.integers(5, d - 20))
                poly += [(x, top), (x + tw, top)]
                x += tw
                if i < nt - 1:
                    gap = draw(st.integers(20, 120))
                    poly += [(x, d), (x + gap, d)]
                    x += gap
            poly += [(x, h), (0, h)]
        elif kind == "dent":
            # a box one of whose long edges is not quite straight: a vertex a fraction of a pixel inside (hand-drawn or
            # re-sampled outlines)
            w, h = draw(st.integers(150, 700)), draw(st.integers(80, 400))
            a = draw(st.integers(w // 5, 4 * w // 5))
            dpx = draw(st.sampled_from([0.2, 0.3, 0.45, 0.7]))
            if draw(st.booleans()):
                poly = [(0, 0), (a, dpx), (w, 0), (w, h), (0, h)]
            else:
                poly = [(0, 0), (w, 0), (w, h), (a, h - dpx), (0, h)]
        elif kind == "pinch":
            w, h = draw(st.integers(200, 500)), draw(st.integers(200, 400))
            poly = [(0, 0), (w, 0), (w / 2, h / 2), (w, h), (0, h), (w / 2, h / 2)]
            valid = False
        else:
            w, h = draw(st.integers(100, 800)), draw(st.integers(60, 500))
            poly = [(0, 0), (w, 0), (w, h), (0, h)]
        if integer and kind != "dent":
            poly = [(float(round(x)) + ox, float(round(y)) + oy) for x, y in poly]
            if kind in ("convex", "star"):
                # rounding may create duplicates; keep them simple by re-hulling convex ones only
                if kind == "convex":
                    poly = geom.convex_hull(poly)
                    if len(poly) < 3:
                        poly = [(ox, oy), (ox + 300, oy), (ox + 300, oy + 200), (ox, oy + 200)]
        else:
            fx = draw(st.floats(0, 1, allow_nan=False))
            poly = [(x + ox + fx, y + oy + fx / 2) for x, y in poly]
        return dict(kind=kind, poly=[(float(x), float(y)) for x, y in poly], valid=valid, integer=integer)
    return region()


def chord_intervals(poly, y):
    xs = []
    n = len(poly)
    for i in range(n):
        (x1, y1), (x2, y2) = poly[i], poly[(i + 1) % n]
        if (y1 > y) != (y2 > y):
            xs.append(x1 + (y - y1) * (x2 - x1) / (y2 - y1))
    xs.sort()
    return [(xs[i], xs[i + 1]) for i in range(0, len(xs) - 1, 2)]


def strat_assign():
    from hypothesis import strategies as st

    @st.composite
    def case(draw):
        crowded = draw(st.integers(0, 39)) == 0         # a full page: a dozen regions, dozens of lines
        regs = draw(st.lists(region_strategy(), min_size=1, max_size=4)) if not crowded else draw(st.lists(region_strategy(), min_size=8, max_size=14))
        # lines entering a region several times: concave regions with arms of unequal width and height, lines right across
        reentrant = (not crowded) and draw(st.integers(0, 5)) == 0
        if reentrant:
            regs = draw(st.lists(region_strategy(("comb", "comb", "U")), min_size=1, max_size=2))
        if len(regs) >= 2 and draw(st.integers(0, 3)) == 0:
            # nested: shrink a copy of region 0 around its centroid
            p0 = regs[0]["poly"]
            cx = sum(p[0] for p in p0) / len(p0)
            cy = sum(p[1] for p in p0) / len(p0)
            regs[1] = dict(kind="nested", poly=[(cx + (x - cx) * 0.5, cy + (y - cy) * 0.5) for x, y in p0], valid=regs[0]["valid"], integer=False)
        lines = []
        for _ in range(draw(st.integers(0, 8)) if not crowded else draw(st.integers(20, 35))):
            mode = draw(st.sampled_from(["inside", "inside", "cross", "span", "span_edge", "span_edge", "far", "random", "arch"] if not reentrant else ["span", "span_edge", "span_edge", "cross"]))
            r = regs[draw(st.integers(0, len(regs) - 1))]
            ys = [p[1] for p in r["poly"]]
            xs = [p[0] for p in r["poly"]]
            integer = draw(st.booleans())
            y = draw(st.floats(min(ys) + 5, max(ys) - 5, allow_nan=False)) if max(ys) - min(ys) > 12 else (min(ys) + max(ys)) / 2
            if integer:
                y = float(round(y)) + 0.0
            iv = chord_intervals(r["poly"], y + 1e-7)
            if mode in ("inside", "cross") and iv:
                a, b = max(iv, key=lambda t: t[1] - t[0])
                if mode == "inside":
                    m = draw(st.integers(3, 12))
                    x0, x1 = a + m, b - m
                else:
                    side = draw(st.sampled_from(["left", "right", "both"]))
                    ext = draw(st.integers(15, 120))
                    x0 = a - ext if side in ("left", "both") else a + 8
                    x1 = b + ext if side in ("right", "both") else b - 8
            elif mode == "span_edge":
                # right across the region a few pixels below (or above) one of its corners: a region edge runs between
                # the baseline and the ascender / descender height
                y = draw(st.sampled_from(sorted(set(ys)))) + draw(st.integers(2, 12)) * draw(st.sampled_from([1, 1, -1]))
                x0, x1 = min(xs) - draw(st.integers(10, 80)), max(xs) + draw(st.integers(10, 80))
            elif mode == "span":
                x0, x1 = min(xs) - draw(st.integers(10, 80)), max(xs) + draw(st.integers(10, 80))
            elif mode == "far":
                x0 = 3000 + draw(st.integers(0, 300))
                x1 = x0 + draw(st.integers(10, 400))
                y = 3000.0 + draw(st.integers(0, 300))
            else:
                x0 = draw(st.integers(0, 2200))
                x1 = x0 + draw(st.integers(1, 900))
                y = float(draw(st.integers(0, 2200)))
            arch = None
            if mode == "arch":
                # end points above (or below) the region's bounding box, the middle bulges 10-60 px into it
                x0, x1 = min(xs) + 5.0, max(xs) - 5.0
                top = draw(st.booleans())
                y_out = (min(ys) - draw(st.integers(3, 25))) if top else (max(ys) + draw(st.integers(3, 25)))
                depth = draw(st.integers(10, 60)) * (1 if top else -1)
                arch = (y_out, depth)
            if x1 - x0 < 1:
                x0, x1 = x0 - 10, x0 + 10
            npts = draw(st.integers(2, 5)) if arch is None else draw(st.integers(3, 5))
            jit = draw(st.sampled_from([0.0, 0.0, 1.0, 2.0])) if mode != "inside" else draw(st.sampled_from([0.0, 1.0]))
            pts = []
            for k in range(npts):
                px = x0 + (x1 - x0) * k / (npts - 1)
                py = y + (jit * ((k % 2) * 2 - 1) if 0 < k < npts - 1 else 0.0)
                if arch is not None:
                    py = arch[0] + (arch[1] if 0 < k < npts - 1 else 0.0)
                if integer:
                    px, py = float(round(px)), float(round(py))
                pts.append((px, py))
            # strictly increasing x
            ok = all(pts[i + 1][0] > pts[i][0] for i in range(len(pts) - 1))
            if not ok:
                pts = [pts[0], (pts[0][0] + max(2.0, x1 - x0), pts[0][1])]
            # lines of rotated passes run right to left or along the vertical axis
            orient = draw(st.sampled_from(["ltr", "ltr", "ltr", "rtl", "vertical_down", "vertical_up"] if not reentrant else ["ltr", "ltr", "rtl"]))
            if orient == "rtl":
                pts = pts[::-1]
            elif orient.startswith("vertical") and mode in ("inside", "cross", "span", "span_edge"):
                # a vertical chord through the region's bounding box at a drawn x
                xv = draw(st.floats(min(xs) + 3, max(xs) - 3, allow_nan=False)) if max(xs) - min(xs) > 8 else (min(xs) + max(xs)) / 2
                if integer:
                    xv = float(round(xv))
                ext = 0 if mode == "inside" else draw(st.integers(15, 60))
                y_lo, y_hi = min(ys) + (6 if mode == "inside" else -ext), max(ys) - (6 if mode == "inside" else -ext)
                if y_hi - y_lo > 4:
                    pts = [(xv, y_lo + (y_hi - y_lo) * k / (npts - 1)) for k in range(npts)]
                    if integer:
                        pts = [(float(round(px)), float(round(py))) for px, py in pts]
                    if not all(pts[i + 1][1] > pts[i][1] for i in range(len(pts) - 1)):
                        pts = [pts[0], (pts[0][0], pts[0][1] + max(3.0, y_hi - y_lo))]
                    if orient == "vertical_up":
                        pts = pts[::-1]
            lines.append(dict(mode=mode, orient=orient, baseline=pts, heights=(float(draw(st.integers(5, 30))), float(draw(st.integers(2, 10))))))
        return dict(regions=regs, lines=lines)
    return case()


# ------------------------------------------------------------------ oracle
def ref_poly(r):
    return r["poly"] if r["valid"] else geom.convex_hull(r["poly"])


def classify_pair(baseline, poly):
    samples = geom.sample_polyline(baseline, 200)
    touches = geom.polyline_touches_polygon(baseline, poly)
    if not touches:
        # clearance: also not within 0.5 px of the polygon
        if min(geom.boundary_dist(p, poly) for p in samples) > 0.5:
            return "outside"
        return "near"
    if all(geom.point_in_polygon(p, poly) and geom.boundary_dist(p, poly) > 0.5 for p in samples):
        crosses = False
        n = len(poly)
        for i in range(len(baseline) - 1):
            for j in range(n):
                if geom.segments_intersect(baseline[i], baseline[i + 1], poly[j], poly[(j + 1) % n]):
                    crosses = True
        if not crosses:
            return "inside"
    return "crossing"


def inside_runs(baseline, poly, n=3000):
    samples = geom.sample_polyline(baseline, n)
    L = geom.polyline_length(baseline)
    step = L / (n - 1)
    runs = []
    cur = 0
    for p in samples:
        if geom.point_in_polygon(p, poly):
            cur += 1
        else:
            if cur:
                runs.append(cur)
            cur = 0
    if cur:
        runs.append(cur)
    return [max(0.0, (c - 1) * step) for c in runs], step


def check_placed_line(ctx, line, detected, ref, tol, desc, check_piece=True):
    bl = [(float(x), float(y)) for x, y in np.asarray(line.baseline)]
    for p in geom.sample_polyline(bl, 50):
        ctx.check(geom.inside_tol(p, ref, tol), "placed_baseline_outside_region", lambda: "line %s point %r; " % (line.id, p) + desc())
    if check_piece:
        det = [(float(x), float(y)) for x, y in detected["baseline"]]
        for p in bl:
            ctx.check(geom.polyline_dist(p, det) <= tol, "placed_baseline_not_piece_of_detected",
                      lambda: "line %s vertex %r detected %r; " % (line.id, p, det) + desc())
        arcs = [geom.arc_position(p, det) for p in bl]
        ctx.check(all(arcs[i + 1] >= arcs[i] - tol for i in range(len(arcs) - 1)), "placed_baseline_direction_reversed",
                  lambda: "line %s arcs %r; " % (line.id, arcs) + desc())
        hull = geom.convex_hull([(float(x), float(y)) for x, y in detected["outline"]])
    ring = [(float(q[0]), float(q[1])) for q in np.asarray(line.polygon)]
    for (x1_, y1_), (x2_, y2_) in zip(ring, ring[1:] + ring[:1]):
        # the outline is clipped to the region: not only its vertices, every point of its edges lies inside
        for t_ in (0.125, 0.25, 0.375, 0.5, 0.625, 0.75, 0.875):
            q = (x1_ + t_ * (x2_ - x1_), y1_ + t_ * (y2_ - y1_))
            ctx.check(geom.inside_tol(q, ref, tol * 10 + 1e-3), "placed_outline_outside_region",
                      lambda: "line %s: point %r of the outline edge %r-%r; " % (line.id, q, (x1_, y1_), (x2_, y2_)) + desc())
    for p in np.asarray(line.polygon):
        p = (float(p[0]), float(p[1]))
        ctx.check(geom.inside_tol(p, ref, tol * 10 + 1e-3), "placed_outline_outside_region", lambda: "line %s outline vertex %r; " % (line.id, p) + desc())
        if check_piece:
            ctx.check(geom.inside_tol(p, hull, tol * 10 + 1e-3), "placed_outline_outside_detected_outline",
                      lambda: "line %s outline vertex %r; " % (line.id, p) + desc())


def body_assign(ctx, case):
    from pero_ocr.core.layout import RegionLayout
    from pero_ocr.layout_engines import layout_helpers as H
    regs = [RegionLayout("r%03d" % i, np.asarray(r["poly"], dtype=np.float64)) for i, r in enumerate(case["regions"])]
    dets = []
    for li_, l in enumerate(case["lines"]):
        b = np.asarray(l["baseline"], dtype=np.float64)
        if li_ % 3 == 2 and np.array_equal(b, np.round(b)):
            b = b.astype(np.int64)          # detectors hand over integer pixel positions times the down-sampling
        h = list(l["heights"]) if li_ % 2 else np.asarray(l["heights"], dtype=np.float64)
        t = H.baseline_to_textline(b, h)
        dets.append(dict(baseline=l["baseline"], heights=h, outline=t, b=b))
    desc = lambda: "case=%r" % (case,)
    scale = 1 + max([abs(x) for r in case["regions"] for p in r["poly"] for x in p] + [abs(x) for l in case["lines"] for p in l["baseline"] for x in p])
    tol = 1e-6 * scale
    import warnings
    with warnings.catch_warnings():
        warnings.simplefilter("ignore")
        out = ctx.must("assign_raises", H.assign_lines_to_regions, [d["b"] for d in dets], [d["heights"] for d in dets],
                       [d["outline"] for d in dets], regs)
    ctx.check(out is regs or list(out) == list(regs), "regions_replaced", desc)
    all_ids = [l.id for r in regs for l in r.lines]
    ctx.check(len(all_ids) == len(set(all_ids)), "duplicate_line_ids", lambda: "ids %r; " % (all_ids,) + desc())
    placed = {}
    for ri, (reg, rs) in enumerate(zip(regs, case["regions"])):
        ref = ref_poly(rs)
        for line in reg.lines:
            ctx.check(line.id.startswith(reg.id + "-l"), "line_id_without_region_prefix", lambda: "%r; " % line.id + desc())
            idx = int(line.id.rsplit("-l", 1)[1]) - 1
            ctx.check(0 <= idx < len(dets) and (ri, idx) not in placed, "line_index_wrong_or_repeated", lambda: "%r; " % line.id + desc())
            placed[(ri, idx)] = line
            check_placed_line(ctx, line, dets[idx], ref, tol, desc)
            ctx.check([float(x) for x in line.heights] == [float(x) for x in dets[idx]["heights"]], "heights_changed", desc)
    n_inside = n_cross = 0
    for li, d in enumerate(dets):
        L = geom.polyline_length(d["baseline"])
        for ri, rs in enumerate(case["regions"]):
            ref = ref_poly(rs)
            cls = classify_pair(d["baseline"], ref)
            if not rs["valid"]:
                # invalid (self-touching) region: 'inside' is judged against the polygon itself (even-odd), 'outside'
                # against its convex hull (the documented repair); anything in between is not ranked
                cls_poly = classify_pair(d["baseline"], rs["poly"])
                # a line that neither touches the ring nor lies inside it (even-odd) does not touch the region at all,
                # even if it lies in a notch of the convex hull
                cls = "inside" if cls_poly == "inside" else ("outside" if (cls == "outside" or cls_poly == "outside") else "unranked")
            ctx.event("pair:" + cls)
            if cls == "inside" and L > 2.5:
                n_inside += 1
                line = placed.get((ri, li))
                ctx.check(line is not None, "inside_line_not_placed", lambda: "line %d region %d; " % (li, ri) + desc())
                got = np.asarray(line.baseline, dtype=np.float64)
                ctx.check(got.shape == d["b"].shape and np.allclose(got, np.asarray(d["b"], dtype=np.float64), atol=tol, rtol=0), "inside_line_baseline_changed",
                          lambda: "line %d region %d got %r want %r; " % (li, ri, got.tolist(), d["b"].tolist()) + desc())
            elif cls == "outside":
                ctx.check((ri, li) not in placed, "outside_line_placed", lambda: "line %d region %d; " % (li, ri) + desc())
            elif cls == "crossing":
                n_cross += 1
                runs, step = inside_runs(d["baseline"], ref)
                runs_sorted = sorted(runs, reverse=True)
                if len(runs_sorted) >= 2 and runs_sorted[0] > 8 and runs_sorted[0] >= 1.2 * runs_sorted[1] + 4 * step:
                    ctx.event("crosses_region_several_times")
                    line = placed.get((ri, li))
                    ctx.check(line is not None, "longest_piece_not_placed", lambda: "line %d region %d runs %r; " % (li, ri, runs) + desc())
                    gl = geom.polyline_length([(float(x), float(y)) for x, y in np.asarray(line.baseline)])
                    ctx.check(abs(gl - runs_sorted[0]) <= 3 * step + 1e-6, "placed_piece_not_the_longest",
                              lambda: "line %d region %d placed length %r inside runs %r; " % (li, ri, gl, runs) + desc())
    if len(case["regions"]) >= 2 and n_inside >= 1 and n_cross >= 1:
        ctx.nontrivial(repr(case))


# ------------------------------------------------------------------ LayoutExtractor / TextlineExtractorSimple
def strat_extractor():
    from hypothesis import strategies as st

    @st.composite
    def case(draw):
        base = draw(strat_assign())
        scenario = draw(st.sampled_from(["free", "free", "overlapping_given_regions"]))
        if scenario == "overlapping_given_regions" and base["regions"]:
            # two given regions that overlap (the second is the first one shifted) and a line running through both
            r0 = base["regions"][0]
            dx, dy = draw(st.integers(5, 40)), draw(st.integers(0, 10))
            r1 = dict(r0, poly=[(x + dx, y + dy) for x, y in r0["poly"]])
            base = dict(base, regions=[r0, r1] + base["regions"][1:3])
            xs = [p[0] for p in r0["poly"]]; ys = [p[1] for p in r0["poly"]]
            ymid = (min(ys) + max(ys)) / 2.0
            base["lines"] = [dict(mode="span", baseline=[(min(xs) - 20.0, ymid), (max(xs) + 60.0, ymid)], heights=(10.0, 4.0))] + base["lines"][:4]
        per_rot = {}
        for rot in (0, 1, 3):
            if rot == 0 or draw(st.booleans()):
                per_rot[rot] = list(range(len(base["lines"])))
            else:
                per_rot[rot] = [i for i in range(len(base["lines"])) if draw(st.booleans())]
        forced = scenario == "overlapping_given_regions"
        return dict(base=base, per_rot=per_rot, detect_regions=draw(st.booleans()) and not forced, detect_lines=draw(st.booleans()) or forced,
                    merge_lines=draw(st.booleans()) and not forced, multi=draw(st.booleans()) or forced,
                    simple=draw(st.integers(0, 4)) == 0 and not forced, lib_ids=draw(st.booleans()) or forced)
    return case()


class StubDetector:
    def __init__(self, case, H):
        self.case = case
        self.H = H

    def detect(self, img, rot=0):
        base = self.case["base"]
        p_list = [np.asarray(r["poly"], dtype=np.float64) for r in base["regions"]]
        b, h, t = [], [], []
        for i in self.case["per_rot"].get(rot, []):
            l = base["lines"][i]
            bb = np.asarray(l["baseline"], dtype=np.float64)
            b.append(bb)
            h.append(list(l["heights"]))
            t.append(self.H.baseline_to_textline(bb, list(l["heights"])))
        return p_list, b, h, t

    def detect_lines(self, img, polygon):
        base = self.case["base"]
        b, h, t = [], [], []
        for l in base["lines"]:
            bb = np.asarray(l["baseline"], dtype=np.float64)
            b.append(bb)
            h.append(list(l["heights"]))
            t.append(self.H.baseline_to_textline(bb, list(l["heights"])))
        return b, h, t


def body_extractor(ctx, case):
    import warnings
    from pero_ocr.core.layout import PageLayout, RegionLayout
    from pero_ocr.document_ocr import page_parser as PP
    from pero_ocr.layout_engines import layout_helpers as H
    base = case["base"]
    pl = PageLayout(id="p", page_size=(4000, 4000))
    desc = lambda: "case=%r" % (case,)
    img = np.zeros((8, 8, 3), dtype=np.uint8)
    # given regions carry ids of the library's own scheme (r000, r000_1, r001_3: what an earlier detection pass writes)
    scheme = ["r000", "r000_1", "r001_3", "r001"] + ["r%03d%s" % (2 + k // 3, ("", "_1", "_3")[k % 3]) for k in range(30)]
    given = [RegionLayout(scheme[i] if case.get("lib_ids") else "g%d" % i, np.asarray(r["poly"], dtype=np.float64))
             for i, r in enumerate(base["regions"])]
    if case["simple"]:
        ex = object.__new__(PP.TextlineExtractorSimple)
        ex.engine = StubDetector(case, H)
        pl.regions = given
        out = ctx.must("extractor_raises", ex.process_page, img, pl)
        ctx.event("TextlineExtractorSimple")
    else:
        ex = object.__new__(PP.LayoutExtractor)
        ex.detect_regions = case["detect_regions"]
        ex.detect_lines = case["detect_lines"]
        ex.detect_straight_lines_in_regions = False
        ex.merge_lines = case["merge_lines"]
        ex.adjust_heights = False
        ex.multi_orientation = case["multi"]
        ex.adjust_baselines = False
        ex.engine = StubDetector(case, H)
        if not case["detect_regions"]:
            pl.regions = given
        with warnings.catch_warnings():
            warnings.simplefilter("ignore")
            out = ctx.must("extractor_raises", ex.process_page, img, pl)
        ctx.event("opts:%d%d%d%d" % (case["detect_regions"], case["detect_lines"], case["merge_lines"], case["multi"]))
    ids = [l.id for l in out.lines_iterator()]
    ctx.check(len(ids) == len(set(ids)), "duplicate_line_ids",
              lambda: "ids %r; options detect_regions=%r detect_lines=%r merge_lines=%r multi_orientation=%r; " % (
                  ids, case["detect_regions"], case["detect_lines"], case["merge_lines"], case["multi"]) + desc())
    rids = [r.id for r in out.regions]
    ctx.check(len(rids) == len(set(rids)), "duplicate_region_ids", lambda: "%r; " % (rids,) + desc())
    if not case["simple"]:
        scale = 1 + max([abs(x) for r in base["regions"] for p in r["poly"] for x in p] + [1.0])
        tol = 1e-6 * scale
        for reg in out.regions:
            poly = [(float(x), float(y)) for x, y in np.asarray(reg.polygon)]
            # find the spec of this region for validity
            spec = [r for r in base["regions"] if len(r["poly"]) == len(poly) and np.allclose(np.asarray(r["poly"]), np.asarray(poly))]
            ref = poly if (spec and spec[0]["valid"]) else geom.convex_hull(poly)
            for line in reg.lines:
                check_placed_line(ctx, line, None, ref, tol, desc, check_piece=False)
    if not case["simple"] and not case["detect_regions"] and case["detect_lines"] and not case["merge_lines"]:
        # given regions: every pass (orientation) hands its lines to the same regions, and every line lying wholly
        # inside a region is placed there - in every pass
        passes = (0, 1, 3) if case["multi"] else (0,)
        for reg, rs in zip(out.regions, base["regions"]):
            if not rs["valid"]:
                continue
            want = 0
            for rot in passes:
                for i in case["per_rot"].get(rot, []):
                    l = base["lines"][i]
                    if geom.polyline_length(l["baseline"]) > 2.5 and classify_pair(l["baseline"], ref_poly(rs)) == "inside":
                        want += 1
            ctx.check(len(reg.lines) >= want, "inside_line_of_some_pass_not_placed",
                      lambda: "region %s holds %d lines, %d detections (over passes %r) lie wholly inside it; " % (reg.id, len(reg.lines), want, passes) + desc())
            if want >= 2 and case["multi"]:
                ctx.event("several_passes_place_lines_in_a_given_region")
    if not case["simple"] and not case["detect_regions"] and case["detect_lines"] and out.regions:
        # a second pass over the same page object after its regions were re-drawn (what a layout post-processing step or an
        # editor does between two analyses): the lines must then lie inside the polygons the regions have *now*
        boxes = []
        for reg in out.regions:
            P = np.asarray(reg.polygon, dtype=np.float64)
            lo, hi = P.min(axis=0), P.max(axis=0)
            c, half = (lo + hi) / 2.0, (hi - lo) / 4.0 + 1.0
            box = [(float(c[0] - half[0]), float(c[1] - half[1])), (float(c[0] + half[0]), float(c[1] - half[1])),
                   (float(c[0] + half[0]), float(c[1] + half[1])), (float(c[0] - half[0]), float(c[1] + half[1]))]
            reg.polygon = np.asarray(box, dtype=np.float64)
            boxes.append(box)
        with warnings.catch_warnings():
            warnings.simplefilter("ignore")
            out2 = ctx.must("extractor_raises", ex.process_page, img, out)
        ids2 = [l.id for l in out2.lines_iterator()]
        ctx.check(len(ids2) == len(set(ids2)), "duplicate_line_ids", lambda: "second pass: ids %r; " % (ids2,) + desc())
        scale = 1 + max([abs(x) for r in base["regions"] for p in r["poly"] for x in p] + [1.0])
        for reg, box in zip(out2.regions, boxes):
            for line in reg.lines:
                check_placed_line(ctx, line, None, box, 1e-6 * scale, lambda: "second pass after region %s was re-drawn as %r; " % (reg.id, box) + desc(), check_piece=False)
        ctx.event("second_pass_after_regions_were_redrawn")
    n_lines = len(ids)
    if len(base["regions"]) >= 2 and n_lines >= 2 and (case["multi"] or case["merge_lines"]):
        ctx.nontrivial(repr(case))


# ---------------------------------------------------------------- the image-driven line detector of TextlineExtractorSimple
def strat_simple_engine():
    from hypothesis import strategies as st

    @st.composite
    def case(draw):
        r = draw(region_strategy(kinds=("box", "L", "U", "U", "comb", "comb", "convex")))
        return dict(region=r, period=draw(st.integers(30, 48)), text_h=draw(st.integers(12, 18)), seed=draw(st.integers(0, 2 ** 31 - 1)),
                    first=draw(st.integers(16, 40)))
    return case()


def body_simple_engine(ctx, case):
    """TextlineExtractorSimple with its real, model-free detector (thresholding, projection profile) on a synthetic page: rows
    of dark 'words' are painted inside a region of drawn shape; every line the extractor places must lie inside the region
    polygon (rows that cross a concave region several times included), ids must be unique."""
    from pero_ocr.core.layout import PageLayout, RegionLayout
    from pero_ocr.document_ocr import page_parser as PP
    from pero_ocr.layout_engines.simple_baseline_engine import EngineLineDetectorSimple
    r = case["region"]
    poly = [(x - min(p[0] for p in r["poly"]) + 30.0, y - min(p[1] for p in r["poly"]) + 30.0) for x, y in r["poly"]]
    W = int(max(p[0] for p in poly)) + 40
    Hh = int(max(p[1] for p in poly)) + 40
    img = np.full((Hh, W, 3), 255, dtype=np.uint8)
    rs = np.random.RandomState(case["seed"])
    rows, multi = 0, False
    y = 30 + case["first"]
    while y < Hh - 40:
        ivs = [(a, b) for a, b in chord_intervals(poly, y - case["text_h"] / 2.0) if b - a > 60]
        if len(ivs) >= 2:
            multi = True
        for a, b in ivs:
            x = a + 14
            while x < b - 30:
                w = int(rs.randint(10, 28))
                if x + w > b - 14:
                    break
                img[y - case["text_h"]:y, int(x):int(x) + w] = 0
                x += w + 6
        rows += 1
        y += case["period"]
    ex = object.__new__(PP.TextlineExtractorSimple)
    ex.engine = EngineLineDetectorSimple()
    pl = PageLayout(id="p", page_size=(Hh, W))
    pl.regions = [RegionLayout("r0", np.asarray(poly, dtype=np.float64))]
    desc = lambda: "case=%r" % (case,)
    import warnings
    with warnings.catch_warnings():
        warnings.simplefilter("ignore")
        out = ctx.must("extractor_raises", ex.process_page, img, pl)
    lines = list(out.lines_iterator())
    ids = [l.id for l in lines]
    ctx.check(len(ids) == len(set(ids)), "duplicate_line_ids", lambda: "%r; " % (ids,) + desc())
    for l in lines:
        b = [(float(x), float(yy)) for x, yy in np.asarray(l.baseline)]
        for k in range(41):
            t = k / 40.0
            q = (b[0][0] + t * (b[-1][0] - b[0][0]), b[0][1] + t * (b[-1][1] - b[0][1])) if len(b) == 2 else b[min(len(b) - 1, int(t * (len(b) - 1)))]
            inside = geom.point_in_polygon(q, poly) or geom.boundary_dist(q, poly) <= 1.5       # coordinates are rounded to whole pixels
            ctx.check(inside, "placed_baseline_outside_region",
                      lambda: "line %s baseline %r: point %r lies %.1f px outside the region; " % (l.id, b, q, geom.boundary_dist(q, poly)) + desc())
    ctx.event("region:" + r["kind"])
    if lines:
        ctx.event("lines_detected")
    if multi:
        ctx.event("a_text_row_crosses_the_region_several_times")
    if lines and multi:
        ctx.nontrivial(repr(case))


UNITS = [
    Unit("assign", "given", body=body_assign, strategy=strat_assign, quick=2400, thorough=24000, shards_quick=8),
    Unit("extractor", "given", body=body_extractor, strategy=strat_extractor, quick=1200, thorough=8000, shards_quick=8),
    Unit("simple_engine", "given", body=body_simple_engine, strategy=strat_simple_engine, quick=160, thorough=2500, shards_quick=8),
]
