"""C10 - line crops sample the band around the baseline, on every code path."""
import math

import numpy as np

from vlib.core import Unit, PropertyViolation
from vlib import geom

PROPERTY = "C10"
LEVEL = "exploration"
RULE = ("Baselines of 2-6 points (start anywhere incl. outside the page, direction in (-60,60) deg, segments >= 20 px, "
        "per-segment turn <= 5 deg, integer and fractional coordinates), heights asc 5-60 / desc 2-30, line heights "
        "{16,24,32,48,64}, scale in [0.8,1.5], interpolation orders 0/1/2, noise and gradient images of 150-500 px; "
        "plus degenerate baselines (single pixel, repeated points, zero/negative heights, vertical). Oracle: analytic "
        "geometry of the sampling map (height, width, centre row on the baseline, uniform columns, rows collinear, "
        "equally spaced, starting asc*scale above and ending desc*scale below, perpendicular within 2 deg); metamorphic "
        "pixel equality under a joint shift of image and baseline and under cutting the image through the band "
        "(sub-image path vs general remap); totality. Non-trivial: >= 3 points with curvature, |slope| > 5 deg and "
        "(partly outside the page or fractional coordinates).")
ASSUMPTIONS = ["pixel comparisons allow +-2 grey levels (OpenCV's 1/32 px fixed-point interpolation weights)",
               "the map is compared with the polyline through the given points within max(1.5 px, deviation of the points from their chord) + 0.5 px (the code truncates coordinates to int and fits a curve)"]


def strat_baseline():
    from hypothesis import strategies as st

    @st.composite
    def case(draw):
        n = draw(st.integers(2, 6))
        long_line = draw(st.integers(0, 14)) == 0
        dense = (not long_line) and draw(st.integers(0, 11)) == 0      # a point every few pixels (resampled / refined baselines)
        if dense:
            n = draw(st.integers(20, 60))
        ang = math.radians(draw(st.floats(-59, 59, allow_nan=False))) if not long_line else math.radians(draw(st.floats(-8, 8, allow_nan=False)))
        x = float(draw(st.integers(-40, 300)))
        y = float(draw(st.integers(-40, 300)))
        frac = draw(st.booleans())
        pts = []
        a = ang
        for k in range(n):
            px, py = x, y
            if frac:
                px += draw(st.floats(0, 0.99, allow_nan=False))
                py += draw(st.floats(0, 0.99, allow_nan=False))
            pts.append((float(px), float(py)))
            seg = draw(st.integers(20, 90)) if not long_line else draw(st.integers(300, 700))
            if dense:
                seg = 6 + (k * 7 + n) % 14
            a = a + math.radians(draw(st.floats(-5, 5, allow_nan=False)) if not dense else (draw(st.floats(-5, 5, allow_nan=False)) if k % 8 == 0 else 0.3 * ((k % 3) - 1)))
            a = max(math.radians(-59), min(math.radians(59), a))
            x = float(round(x + seg * math.cos(a)))
            y = float(round(y + seg * math.sin(a)))
        if len(pts) >= 3 and draw(st.integers(0, 9)) == 0:
            k = draw(st.integers(0, len(pts) - 1))
            pts.insert(k, pts[k])           # a repeated vertex (detectors and editors produce them)
        return dict(baseline=pts, heights=(float(draw(st.integers(5, 60))), float(draw(st.integers(2, 30)))),
                    line_height=draw(st.sampled_from([16, 24, 32, 48, 64])),
                    scale=draw(st.sampled_from([1.0, 0.8, 1.25, 1.5]) | st.floats(0.8, 1.5, allow_nan=False)),
                    poly=draw(st.sampled_from([0, 1, 2, 0, 1, 2, 3, 4])), img=(draw(st.integers(150, 500)), draw(st.integers(150, 500))),
                    img_kind=draw(st.sampled_from(["noise", "gradient"])), seed=draw(st.integers(0, 2 ** 31 - 1)),
                    margin=draw(st.integers(1, 70)))
    return case()


def crop_image(ctx, eng, img, baseline, heights):
    """EngineLineCropper.crop as its callers use it (three positional arguments): the result is the crop, an image"""
    out = ctx.must("crop_raises", eng.crop, img, baseline, heights)
    ctx.check(isinstance(out, np.ndarray) and out.ndim == 3, "crop_does_not_return_an_image", lambda: "returned %s" % (type(out).__name__,))
    return out


def make_image(case, h=None, w=None):
    h = h or case["img"][0]
    w = w or case["img"][1]
    rs = np.random.RandomState(case["seed"])
    if case["img_kind"] == "noise":
        return rs.randint(0, 256, size=(h, w, 3)).astype(np.uint8)
    yy, xx = np.mgrid[0:h, 0:w]
    img = np.stack([(xx * 0.7 + yy * 0.3) % 256, (xx * 0.2 + yy * 0.9) % 256, (128 + 100 * np.sin(xx / 17.0) * np.cos(yy / 23.0))], axis=2)
    return img.astype(np.uint8)


def chord_deviation(pts):
    a, b = pts[0], pts[-1]
    return max(geom.seg_dist(p, a, b) for p in pts)


def check_geometry(ctx, case, coords, desc):
    H, W, _ = coords.shape
    base = case["baseline"]
    asc, dsc = case["heights"][0] * case["scale"], case["heights"][1] * case["scale"]
    ctx.check(H == case["line_height"], "crop_map_height", lambda: "height %d; " % H + desc())
    L = geom.polyline_length(base)
    want_w = L * case["line_height"] / (asc + dsc)
    # the code rounds every point down to whole pixels (<= 1.42 px per end point) and walks the baseline in whole-pixel steps
    # (drops < 1 px): up to ~3.9 px of source length, i.e. 3.9 * k columns, plus 2 % for the fitted curve vs the polyline
    k = case["line_height"] / (asc + dsc)
    ctx.check(abs(W - want_w) <= 1 + 3.9 * k + 0.02 * want_w, "crop_map_width", lambda: "width %d expected about %.1f; " % (W, want_w) + desc())
    if W < 3:
        return
    c = coords.astype(np.float64)
    r0 = asc / (asc + dsc) * (H - 1)
    lo = int(math.floor(r0))
    hi = min(H - 1, lo + 1)
    f = r0 - lo
    centre = c[lo] * (1 - f) + c[hi] * f              # W x 2: where the baseline row samples the page
    dev = max(chord_deviation([(math.floor(x), math.floor(y)) for x, y in base]), chord_deviation(base))
    # rounding the points down moves them by up to 1.42 px; polynomial fits stay within the deviation of the points from
    # their chord; a cubic spline through unevenly spaced points may overshoot by a small multiple of it
    tol = (max(1.5, dev) + 1.5) if case["poly"] in (1, 2) else (3.0 + 4.0 * dev)       # cubic spline and degree >= 3 fits may overshoot
    for col in range(0, W, max(1, W // 40)):
        d = geom.polyline_dist(tuple(centre[col]), base)
        ctx.check(d <= tol, "centre_row_off_baseline", lambda: "column %d at %r is %.2f px from the baseline (tolerance %.2f); " % (col, centre[col].tolist(), d, tol) + desc())
    # modes that interpolate (cubic spline through >= 4 points; a polynomial whose degree is at least #points - 1) pass
    # through every given point: up to the flooring of coordinates (1.42 px) and the column spacing
    distinct = len({(math.floor(x), math.floor(y)) for x, y in base}) == len(base)
    interpolating = distinct and ((case["poly"] == 0 and len(base) >= 4) or (case["poly"] >= len(base) - 1 >= 2))
    if interpolating and W >= 8:
        cpl = [tuple(p) for p in centre[::max(1, W // 400)]] + [tuple(centre[-1])]
        for k, p in enumerate(base[1:-1], 1):
            dk = geom.polyline_dist(p, cpl)
            ctx.check(dk <= 3.0, "baseline_row_misses_a_given_point",
                      lambda: "point %d %r is %.2f px from the baseline row; " % (k, p, dk) + desc())
        ctx.event("interpolating_mode")
    # polynomial modes fit the points: with more points than the degree determines, the baseline row is the least-squares
    # polynomial of that degree through the points, in the frame in which the chord from the first to the last point is
    # horizontal (computed here from the whole-pixel points with numpy's solver; tolerance 1 px)
    if case["poly"] in (1, 2) and len(base) >= 3 and distinct:
        P = np.floor(np.asarray(base, dtype=np.float64))
        ang = math.atan2(P[-1, 1] - P[0, 1], P[-1, 0] - P[0, 0])
        ca, sa = math.cos(ang), math.sin(ang)
        rot = lambda q: np.stack([q[:, 0] * ca + q[:, 1] * sa, -q[:, 0] * sa + q[:, 1] * ca], axis=1)
        Pr = rot(P)
        if len(np.unique(np.round(Pr[:, 0], 6))) == len(Pr):
            deg = min(case["poly"], len(Pr) - 1)
            V = np.vander(Pr[:, 0], deg + 1)
            coef = np.linalg.lstsq(V, Pr[:, 1], rcond=None)[0]
            Cr = rot(centre[::max(1, W // 60)])
            off = np.abs(Cr[:, 1] - np.polyval(coef, Cr[:, 0]))
            ctx.check(float(off.max()) <= 1.0, "baseline_row_is_not_the_least_squares_fit_of_the_points",
                      lambda: "order %d through %d points: the baseline row is up to %.2f px from the least-squares polynomial; " % (case["poly"], len(base), float(off.max())) + desc())
            if float(np.abs(Pr[:, 1] - Pr[0, 1]).max()) > 2.0:
                ctx.event("fit_through_non_collinear_points")
    d0 = math.hypot(*(centre[0] - np.asarray(base[0])))
    d1 = math.hypot(*(centre[-1] - np.asarray(base[-1])))
    step = L / max(1, W - 1)
    ctx.check(d0 <= tol + 1.0 and d1 <= tol + 1.5 + step, "crop_does_not_span_first_to_last_point",
              lambda: "first column %.2f px from first point, last column %.2f px from last point; " % (d0, d1) + desc())
    gaps = np.hypot(*(centre[1:] - centre[:-1]).T)
    med = float(np.median(gaps))
    ctx.check(np.all(np.abs(gaps - med) <= 0.10 * med + 1e-3), "columns_not_uniform",
              lambda: "column gaps min %.4f median %.4f max %.4f; " % (gaps.min(), med, gaps.max()) + desc())
    # rows along each column
    want_step = (asc + dsc) / (H - 1)
    worst_perp = 0.0
    for col in range(1, W - 1, max(1, W // 40)):
        colpts = c[:, col, :]
        dv = colpts[1:] - colpts[:-1]
        steps = np.hypot(dv[:, 0], dv[:, 1])
        ctx.check(np.all(np.abs(steps - want_step) <= 1e-3 * (1 + want_step) + 2e-3), "rows_not_equally_spaced",
                  lambda: "column %d row steps %.4f..%.4f expected %.4f; " % (col, steps.min(), steps.max(), want_step) + desc())
        u = (colpts[-1] - colpts[0]) / np.hypot(*(colpts[-1] - colpts[0]))
        off = (colpts - colpts[0]) - np.outer((colpts - colpts[0]) @ u, u)
        ctx.check(np.all(np.hypot(off[:, 0], off[:, 1]) <= 0.02), "rows_not_collinear", lambda: "column %d; " % col + desc())
        top = math.hypot(*(colpts[0] - centre[col]))
        bot = math.hypot(*(colpts[-1] - centre[col]))
        ctx.check(abs(top - asc) <= 0.02 + 1e-3 * asc and abs(bot - dsc) <= 0.02 + 1e-3 * dsc, "band_not_asc_above_desc_below",
                  lambda: "column %d: first row %.3f from baseline (asc*scale %.3f), last row %.3f (desc*scale %.3f); " % (col, top, asc, bot, dsc) + desc())
        t = centre[col + 1] - centre[col - 1]
        t = t / np.hypot(*t)
        above = np.array([t[1], -t[0]])
        ctx.check(float((colpts[0] - centre[col]) @ above) > 0 and float((colpts[-1] - centre[col]) @ above) < 0, "band_upside_down",
                  lambda: "column %d; " % col + desc())
        ang = math.degrees(math.acos(max(-1.0, min(1.0, float(u @ t)))))
        worst_perp = max(worst_perp, abs(ang - 90.0))
        ctx.check(abs(ang - 90.0) <= 2.0, "rows_not_perpendicular_to_baseline",
                  lambda: "column %d: angle between rows and local baseline direction %.2f deg; " % (col, ang) + desc())


def is_nontrivial(case):
    b = case["baseline"]
    if len(b) < 3:
        return False
    slope = math.degrees(math.atan2(b[-1][1] - b[0][1], b[-1][0] - b[0][0]))
    curved = chord_deviation(b) > 0.5
    frac = any(x != int(x) for p in b for x in p)
    h, w = case["img"]
    m = case["heights"][0] * case["scale"]
    outside = any(p[0] < m or p[1] < m or p[0] > w - m or p[1] > h - m for p in b)
    return curved and abs(slope) > 5 and (frac or outside)


def body_geometry(ctx, case):
    from pero_ocr.core.crop_engine import EngineLineCropper
    eng = EngineLineCropper(line_height=case["line_height"], poly=case["poly"], scale=case["scale"])
    desc = lambda: "case=%r" % (case,)
    base = np.asarray(case["baseline"], dtype=np.float64)
    ctx.event("poly:%d" % case["poly"])
    ctx.event("points:%d" % len(base))
    coords = ctx.must("get_crop_inputs_raises", eng.get_crop_inputs, base.copy(), list(case["heights"]), case["line_height"])
    check_geometry(ctx, case, np.asarray(coords), desc)
    img = make_image(case)
    crop = crop_image(ctx, eng, img, base.copy(), list(case["heights"]))
    want = eng.fast_remap(img, coords)
    ctx.check(crop.shape == want.shape and np.array_equal(crop, want), "crop_fell_back_to_blank",
              lambda: "crop shape %r, map shape %r; " % (crop.shape, coords.shape) + desc())
    # history on one line: cropping must not depend on (or change) what was cropped before - the layout engine hands over
    # heights as float64 arrays and baselines as arrays, and the same objects are cropped again by later stages
    h_arr = np.asarray(case["heights"], dtype=np.float64)
    b_arr = base.copy()
    first = np.asarray(eng.get_crop_inputs(b_arr, h_arr, case["line_height"]))
    second = np.asarray(eng.get_crop_inputs(b_arr, h_arr, case["line_height"]))
    ctx.check(np.array_equal(h_arr, np.asarray(case["heights"], dtype=np.float64)) and np.array_equal(b_arr, base), "crop_modifies_its_inputs",
              lambda: "heights now %r baseline now %r; " % (h_arr.tolist(), b_arr.tolist()) + desc())
    ctx.check(first.shape == second.shape and np.array_equal(first, second) and first.shape == np.asarray(coords).shape and np.array_equal(first, coords),
              "second_crop_of_the_same_line_differs", lambda: "shapes %r %r %r; " % (first.shape, second.shape, np.asarray(coords).shape) + desc())
    # the cropper's settings are plain attributes that callers change at run time (the baseline refiner builds croppers with
    # other settings; notebooks flip INTERP): after a detour through other settings the same settings give the same map
    saved = (eng.poly, eng.scale, eng.line_height)
    eng.poly, eng.scale, eng.line_height = (saved[0] + 1) % 3, saved[1] * 1.25, 48 if saved[2] != 48 else 32
    try:
        eng.crop(img, b_arr.copy(), h_arr.copy())
    except Exception:  # noqa: BLE001 - the detour itself is not judged here
        pass
    eng.poly, eng.scale, eng.line_height = saved
    # only the scale is changed (same heights, same target height): the map is that of a cropper built with that scale
    eng.scale = saved[1] * 1.25
    try:
        rescaled = np.asarray(eng.get_crop_inputs(b_arr, h_arr, case["line_height"]))
        fresh_rescaled = np.asarray(EngineLineCropper(line_height=saved[2], poly=saved[0], scale=saved[1] * 1.25).get_crop_inputs(b_arr.copy(), h_arr.copy(), case["line_height"]))
        ctx.check(rescaled.shape == fresh_rescaled.shape and np.array_equal(rescaled, fresh_rescaled), "crop_map_depends_on_settings_the_cropper_had_before",
                  lambda: "after the scale was changed at run time: shapes %r %r; " % (rescaled.shape, fresh_rescaled.shape) + desc())
    except PropertyViolation:
        raise
    except Exception:  # noqa: BLE001 - a setting for which the map cannot be built is not judged here
        pass
    eng.scale = saved[1]
    back = np.asarray(eng.get_crop_inputs(b_arr, h_arr, case["line_height"]))
    ctx.check(back.shape == first.shape and np.array_equal(back, first), "crop_map_depends_on_settings_the_cropper_had_before",
              lambda: "shapes %r %r; " % (back.shape, first.shape) + desc())
    # the same line in the containers / dtypes callers use: lists, float32, and - when the coordinates are integral and
    # small enough - the integer arrays detectors and PAGE XML import produce (int64, int32, int16)
    variants = [("list", [list(p) for p in case["baseline"]]), ("float32", base.astype(np.float32))]
    if np.array_equal(base, np.round(base)) and np.abs(base).max() < 30000:
        variants += [("int64", base.astype(np.int64)), ("int32", base.astype(np.int32)), ("int16", base.astype(np.int16))]
    for name, bvar in variants:
        ref_b = np.asarray(bvar, dtype=np.float64)
        want_map = np.asarray(eng.get_crop_inputs(ref_b.copy(), list(case["heights"]), case["line_height"]))
        got_crop = crop_image(ctx, eng, img, bvar, list(case["heights"]))
        want_crop = eng.fast_remap(img, want_map)
        ctx.check(got_crop.shape == want_crop.shape and np.array_equal(got_crop, want_crop), "crop_depends_on_baseline_container_or_dtype",
                  lambda: "baseline as %s: crop shape %r, expected %r; " % (name, got_crop.shape, want_crop.shape) + desc())
        ctx.event("dtype:" + name)
    # LineCropper.process_page / crop_lines give the engine's crop of the same line (also for lines partly outside the page)
    import configparser
    import contextlib
    import io
    from pero_ocr.core.layout import PageLayout, RegionLayout, TextLine
    from pero_ocr.document_ocr.page_parser import LineCropper
    cp = configparser.ConfigParser()
    cp["LINE_CROPPER"] = {"INTERP": str(case["poly"]), "LINE_SCALE": repr(float(case["scale"])), "LINE_HEIGHT": str(case["line_height"])}
    lc = LineCropper(cp["LINE_CROPPER"])
    pl = PageLayout(id="p", page_size=img.shape[:2])
    reg = RegionLayout("r", np.asarray([[0, 0], [img.shape[1], 0], [img.shape[1], img.shape[0]], [0, img.shape[0]]]))
    reg.lines = [TextLine(id="l0", baseline=base.copy(), polygon=np.zeros((4, 2)), heights=list(case["heights"]))]
    pl.regions = [reg]
    with contextlib.redirect_stdout(io.StringIO()):
        ctx.must("line_cropper_raises", lc.process_page, img, pl)
    ctx.check(reg.lines[0].crop.shape == crop.shape and np.array_equal(reg.lines[0].crop, crop) and np.array_equal(reg.lines[0].baseline, base),
              "line_cropper_differs_from_engine_crop", lambda: "shapes %r %r; " % (reg.lines[0].crop.shape, crop.shape) + desc())
    l2 = TextLine(id="l1", baseline=base.copy(), polygon=np.zeros((4, 2)), heights=list(case["heights"]))
    with contextlib.redirect_stdout(io.StringIO()):
        ctx.must("line_cropper_raises", lc.crop_lines, img, [l2])
    ctx.check(l2.crop.shape == crop.shape and np.array_equal(l2.crop, crop), "crop_lines_differs_from_engine_crop", desc)
    if is_nontrivial(case):
        ctx.nontrivial(repr(case))


def knife_edge(case):
    """True when a discretised quantity of the crop (whole-pixel step count, number of output columns) is within float
    noise of an integer: the rounding noise of the rotation then decides the width, for any position of the line."""
    P = np.floor(np.asarray(case["baseline"], dtype=np.float64))
    d = P[-1] - P[0]
    n = math.hypot(*d)
    if n == 0:
        return True
    u = d / n
    v = np.array([-u[1], u[0]])
    xr = (P - P[0]) @ u
    yr = (P - P[0]) @ v
    if case["poly"] == 0:
        xr = xr.copy()
        xr[-1] += 0.1

    def near_int(q):
        return abs(q - round(q)) < 1e-6
    L = xr.max() - xr.min()
    if near_int(L):
        return True
    steps = int(math.ceil(L))
    if case["poly"] == 0 and len(P) >= 4 and np.abs(yr).max() > 1e-9:
        return False
    deg = max(1, min(case["poly"], len(np.unique(np.floor(xr))) - 1)) if (case["poly"] and len(P) > 2) else 1
    coef = np.polyfit(xr, yr, deg)
    xs = xr.min() + np.arange(steps)
    ys = np.polyval(coef, xs)
    arc = float(np.sum(np.hypot(np.diff(xs), np.diff(ys))))
    k = case["line_height"] / ((case["heights"][0] + case["heights"][1]) * case["scale"])
    return near_int(arc * k)


def body_pixels(ctx, case):
    from pero_ocr.core.crop_engine import EngineLineCropper
    eng = EngineLineCropper(line_height=case["line_height"], poly=case["poly"], scale=case["scale"])
    desc = lambda: "case=%r" % (case,)
    base = np.asarray(case["baseline"], dtype=np.float64)
    try:
        coords = np.asarray(eng.get_crop_inputs(base.copy(), list(case["heights"]), case["line_height"]))
    except Exception:
        ctx.event("map_failed(see geometry unit)")
        return
    if coords.shape[1] < 2:
        return
    if knife_edge(case):
        ctx.event("knife_edge_width_skipped")
        return
    # a canvas that holds the whole band with a margin: band wholly inside -> sub-image path
    x0 = int(math.floor(coords[:, :, 0].min())) - 3
    y0 = int(math.floor(coords[:, :, 1].min())) - 11        # different margins in x and y on purpose
    x1 = int(math.ceil(coords[:, :, 0].max())) + 4
    y1 = int(math.ceil(coords[:, :, 1].max())) + 4
    W, Hh = x1 - x0, y1 - y0
    if W * Hh > 1200 * 1200:
        return
    canvas = make_image(case, Hh, W)
    shift = np.array([-x0, -y0], dtype=np.float64)
    b_in = base + shift                 # non-negative coordinates, band inside the canvas
    ref = crop_image(ctx, eng, canvas, b_in.copy(), list(case["heights"]))
    ctx.check(ref.shape[0] == case["line_height"] and ref.shape[1] == coords.shape[1], "crop_fell_back_to_blank", lambda: "shape %r; " % (ref.shape,) + desc())
    # the two documented return modes hand back the same crop, together with the sampling map resp. its inverse
    fw = ctx.must("crop_raises", eng.crop, canvas, b_in.copy(), list(case["heights"]), False, True)
    ctx.check(isinstance(fw, tuple) and len(fw) == 2 and np.array_equal(fw[0], ref) and np.array_equal(
        np.asarray(fw[1]), np.asarray(eng.get_crop_inputs(b_in.copy(), list(case["heights"]), case["line_height"]))),
        "crop_with_forward_mapping_differs_from_plain_crop", desc)
    if ref.shape[1] <= 400:
        bw = ctx.must("crop_raises", eng.crop, canvas, b_in.copy(), list(case["heights"]), True)
        ctx.check(isinstance(bw, tuple) and len(bw) == 3 and np.array_equal(bw[0], ref), "crop_with_reverse_mapping_differs_from_plain_crop", desc)
    # a crop stays what it was when the same cropper crops the next line (all lines of a page are cropped before any is
    # recognised): the same line on the inverted page has a crop of identical shape
    kept = ref.copy()
    other = crop_image(ctx, eng, 255 - canvas, b_in.copy(), list(case["heights"]))
    ctx.check(np.array_equal(ref, kept), "earlier_crop_changed_by_a_later_crop",
              lambda: "the crop differs in %d pixels after the same cropper cropped another line of the same shape; " % int((ref != kept).any(axis=2).sum()) + desc())
    ctx.check(other.shape == kept.shape and int(np.abs(other.astype(int) + kept.astype(int) - 255).max()) <= 2, "crop_of_inverted_page_not_inverted_crop", desc)
    # (a) joint shift by an integer margin inside a zero border
    m = case["margin"]
    my = m + 5 + (m % 3)
    big = np.zeros((Hh + 2 * my, W + 2 * m, 3), dtype=np.uint8)
    big[my:my + Hh, m:m + W] = canvas
    mv = np.array([m, my], dtype=np.float64)
    moved = crop_image(ctx, eng, big, b_in + mv, list(case["heights"]))
    map_ref = np.asarray(eng.get_crop_inputs(b_in.copy(), list(case["heights"]), case["line_height"]))
    map_mov = np.asarray(eng.get_crop_inputs(b_in + mv, list(case["heights"]), case["line_height"]))
    ctx.check(map_ref.shape == map_mov.shape and np.abs(map_mov - mv.astype(np.float32) - map_ref).max() < 2e-3, "sampling_map_changes_under_joint_shift",
              lambda: "shapes %r %r; " % (map_ref.shape, map_mov.shape) + desc())
    ctx.check(moved.shape == ref.shape, "shifted_crop_shape", lambda: "%r vs %r; " % (moved.shape, ref.shape) + desc())
    diff = np.abs(moved.astype(int) - ref.astype(int))
    ctx.check(diff.max() <= 2, "crop_changes_under_joint_shift",
              lambda: "max grey-level difference %d at %r (shift %d,%d); " % (diff.max(), np.unravel_index(diff.argmax(), diff.shape), m, my) + desc())
    # (b) cut the canvas through the band: general remap path, pixels inside unchanged, outside zero
    cx = W // 2 + (m % 7)
    cy = Hh // 2 + (m % 5)
    cut = canvas[cy:, cx:] if m % 2 else canvas[:cy, :cx]
    off = np.array([cx, cy], dtype=np.float64) if m % 2 else np.zeros(2)
    cb = b_in - off
    cropped = crop_image(ctx, eng, cut, cb.copy(), list(case["heights"]))
    map2 = np.asarray(eng.get_crop_inputs(cb.copy(), list(case["heights"]), case["line_height"]))
    ctx.check(cropped.shape[:2] == map2.shape[:2], "crop_fell_back_to_blank", lambda: "cut crop shape %r; " % (cropped.shape,) + desc())
    # the return modes give the same crop for a line that leaves the page, too
    if cropped.shape[1] <= 400 and min(cut.shape[:2]) >= 2:
        bw_cut = ctx.must("crop_raises", eng.crop, cut, cb.copy(), list(case["heights"]), True)
        ctx.check(isinstance(bw_cut, tuple) and np.array_equal(bw_cut[0], cropped), "crop_with_reverse_mapping_differs_from_plain_crop",
                  lambda: "line partly outside the page; " + desc())
    fw_cut = ctx.must("crop_raises", eng.crop, cut, cb.copy(), list(case["heights"]), False, True)
    ctx.check(isinstance(fw_cut, tuple) and np.array_equal(fw_cut[0], cropped), "crop_with_forward_mapping_differs_from_plain_crop",
              lambda: "line partly outside the page; " + desc())
    if cropped.shape == ref.shape:
        # same truncation of coordinates -> the two maps differ by the integer offset only
        sx, sy = map2[:, :, 0], map2[:, :, 1]
        inside = (sx >= 1) & (sy >= 1) & (sx <= cut.shape[1] - 2) & (sy <= cut.shape[0] - 2)
        outside = (sx <= -1) | (sy <= -1) | (sx >= cut.shape[1]) | (sy >= cut.shape[0])
        d2 = np.abs(cropped.astype(int) - ref.astype(int)).max(axis=2)
        ctx.check(not inside.any() or d2[inside].max() <= 2, "fast_and_general_path_differ",
                  lambda: "max difference %d on pixels whose source is inside the cut image; " % d2[inside].max() + desc())
        ctx.check(not outside.any() or cropped[outside].max() == 0, "outside_pixels_not_blank", desc)
        ctx.event("general_path_compared")
        if inside.any() and outside.any() and is_nontrivial(case):
            ctx.nontrivial(repr(case))
    else:
        ctx.event("cut_shifted_baseline_negative")
    # (c) the same line at the far end of a very large page (a side above 32767 px: maps, newspaper sheets at high
    # resolution), wholly inside and with the page ending in the middle of the band. float32 sampling positions are
    # only exact to 1/256 px out there, so single pixels may differ by an interpolation step: compared by mean and
    # a wide per-pixel bound (a blank or displaced crop differs by ~100 grey levels on average)
    if case["seed"] % 12 == 0 and min(W, Hh) <= 400:
        wide = Hh <= 400
        if wide:
            page = np.zeros((Hh, 32800 + W, 3), dtype=np.uint8)
            offp = np.array([32800.0, 0.0])
            page[:, 32800:] = canvas
            page_cut, small_cut = page[:, :32800 + cx], canvas[:, :cx]
        else:
            page = np.zeros((32800 + Hh, W, 3), dtype=np.uint8)
            offp = np.array([0.0, 32800.0])
            page[32800:, :] = canvas
            page_cut, small_cut = page[:32800 + cy, :], canvas[:cy, :]
        ctx.event("page_side_over_32767")
        far = crop_image(ctx, eng, page, b_in + offp, list(case["heights"]))
        ctx.check(far.shape == ref.shape, "crop_fell_back_to_blank", lambda: "far end of a %r page: shape %r expected %r; " % (page.shape, far.shape, ref.shape) + desc())
        dfar = np.abs(far.astype(int) - ref.astype(int))
        ctx.check(dfar.mean() <= 3.0 and dfar.max() <= 40, "crop_differs_on_very_large_page",
                  lambda: "mean difference %.2f max %d; " % (dfar.mean(), dfar.max()) + desc())
        want_cut = crop_image(ctx, eng, small_cut, b_in.copy(), list(case["heights"]))
        got_cut = crop_image(ctx, eng, page_cut, b_in + offp, list(case["heights"]))
        ctx.check(got_cut.shape == want_cut.shape, "crop_fell_back_to_blank",
                  lambda: "line crossing the edge of a %r page: shape %r expected %r; " % (page_cut.shape, got_cut.shape, want_cut.shape) + desc())
        dcut = np.abs(got_cut.astype(int) - want_cut.astype(int))
        ctx.check(dcut.mean() <= 3.0 and dcut.max() <= 40, "crop_differs_on_very_large_page",
                  lambda: "line crossing the page edge: mean difference %.2f max %d; " % (dcut.mean(), dcut.max()) + desc())


def strat_degenerate():
    from hypothesis import strategies as st
    pt = st.tuples(st.integers(-20, 300).map(float), st.integers(-20, 300).map(float))

    @st.composite
    def case(draw):
        kind = draw(st.sampled_from(["single_pixel", "repeated", "zero_heights", "neg_heights", "vertical", "short", "one_point", "backwards"]))
        p = draw(pt)
        heights = (float(draw(st.integers(5, 30))), float(draw(st.integers(2, 15))))
        if kind == "single_pixel":
            b = [p, (p[0] + 0.4, p[1] + 0.3)]
        elif kind == "repeated":
            b = [p] * draw(st.integers(2, 5))
        elif kind == "zero_heights":
            b = [p, (p[0] + 100, p[1] + 3)]
            heights = (0.0, 0.0)
        elif kind == "neg_heights":
            b = [p, (p[0] + 100, p[1] + 3)]
            heights = (-5.0, 2.0)
        elif kind == "vertical":
            b = [p, (p[0], p[1] + draw(st.integers(1, 200)))]
        elif kind == "short":
            b = [p, (p[0] + draw(st.integers(1, 4)), p[1])]
        elif kind == "one_point":
            b = [p]
        else:
            b = [p, (p[0] + 50, p[1]), (p[0] + 20, p[1] + 1), (p[0] + 90, p[1])]
        return dict(kind=kind, baseline=b, heights=heights, line_height=draw(st.sampled_from([16, 32, 48])),
                    poly=draw(st.sampled_from([0, 1, 2])), scale=draw(st.sampled_from([1.0, 1.25])))
    return case()


def body_degenerate(ctx, case):
    import configparser
    from pero_ocr.core.crop_engine import EngineLineCropper
    from pero_ocr.core.layout import PageLayout, RegionLayout, TextLine
    from pero_ocr.document_ocr.page_parser import LineCropper
    import contextlib, io
    desc = lambda: "case=%r" % (case,)
    yy, xx = np.mgrid[0:300, 0:300]
    img = np.stack([(xx * 0.7 + yy * 0.3) % 256, (xx * 0.2 + yy * 0.9) % 256, 64 + (xx + 2 * yy) % 128], axis=2).astype(np.uint8)
    eng = EngineLineCropper(line_height=case["line_height"], poly=case["poly"], scale=case["scale"])
    base = np.asarray(case["baseline"], dtype=np.float64)
    good_base = np.asarray([[10.0, 50.0], [70.0, 62.0], [135.0, 66.0], [200.0, 55.0]])       # a curved line
    good_heights = [20.0, 8.0]
    with contextlib.redirect_stdout(io.StringIO()):
        crop = ctx.must("crop_raises_on_degenerate_line", eng.crop, img, base.copy(), list(case["heights"]))
        # the cropper that has just handled the degenerate line crops a good, curved line exactly like a cropper that has not
        after = ctx.must("crop_raises", eng.crop, img, good_base.copy(), list(good_heights))
        fresh = ctx.must("crop_raises", EngineLineCropper(line_height=case["line_height"], poly=case["poly"], scale=case["scale"]).crop,
                         img, good_base.copy(), list(good_heights))
    ctx.check(after.shape == fresh.shape and np.array_equal(after, fresh), "crop_after_a_degenerate_line_differs_from_a_fresh_croppers",
              lambda: "shapes %r / %r, %s; " % (after.shape, fresh.shape, "pixels differ" if after.shape == fresh.shape else "") + desc())
    ctx.check(isinstance(crop, np.ndarray) and crop.ndim == 3 and crop.shape[0] == case["line_height"], "degenerate_crop_wrong_height",
              lambda: "shape %r; " % (getattr(crop, "shape", None),) + desc())
    ctx.check(crop.shape[2] == 3 and crop.dtype == np.uint8 and crop.shape[1] >= 1, "degenerate_crop_not_an_image_like_the_page",
              lambda: "shape %r dtype %r; " % (crop.shape, crop.dtype) + desc())
    cp = configparser.ConfigParser()
    cp["LINE_CROPPER"] = {"INTERP": str(case["poly"]), "LINE_SCALE": str(case["scale"]), "LINE_HEIGHT": str(case["line_height"])}
    lc = LineCropper(cp["LINE_CROPPER"])
    pl = PageLayout(id="p", page_size=(300, 300))
    reg = RegionLayout("r", np.asarray([[0, 0], [300, 0], [300, 300], [0, 300]]))
    reg.lines = [TextLine(id="l0", baseline=base.copy(), polygon=np.zeros((4, 2)), heights=list(case["heights"])),
                 TextLine(id="l1", baseline=good_base.copy(), polygon=np.zeros((4, 2)), heights=list(good_heights))]
    pl.regions = [reg]
    with contextlib.redirect_stdout(io.StringIO()):
        ctx.must("line_cropper_raises_on_degenerate_line", lc.process_page, img, pl)
    for l in reg.lines:
        ctx.check(l.crop is not None and l.crop.shape[0] == case["line_height"], "line_cropper_wrong_height", lambda: "line %s shape %r; " % (l.id, getattr(l.crop, "shape", None)) + desc())
    ctx.check(reg.lines[1].crop.shape[1] > 32 and reg.lines[1].crop.max() > 0, "good_line_blank_next_to_degenerate", desc)
    ctx.check(reg.lines[1].crop.shape == fresh.shape and np.array_equal(reg.lines[1].crop, fresh), "line_cropper_crop_after_a_degenerate_line_differs_from_a_fresh_croppers", desc)
    ctx.event("kind:" + case["kind"])
    ctx.nontrivial(repr(case))


UNITS = [
    Unit("geometry", "given", body=body_geometry, strategy=strat_baseline, quick=1200, thorough=16000),
    Unit("pixels", "given", body=body_pixels, strategy=strat_baseline, quick=600, thorough=6000),
    Unit("degenerate", "given", body=body_degenerate, strategy=strat_degenerate, quick=150, thorough=2000),
]
