"""Shared Hypothesis generators (all randomness comes from Hypothesis draws)."""
import math

import numpy as np
from hypothesis import strategies as st

NEG = float("-inf")


def _log_softmax(rows):
    a = np.asarray(rows, dtype=np.float64)
    m = a.max(axis=1, keepdims=True)
    e = np.exp(a - m)
    return (a - m) - np.log(e.sum(axis=1, keepdims=True))


@st.composite
def compositions(draw, total, parts):
    """non-negative integer vector of given length summing to total."""
    cuts = sorted(draw(st.lists(st.integers(0, total), min_size=parts - 1, max_size=parts - 1)))
    prev = 0
    out = []
    for c in cuts:
        out.append(c - prev)
        prev = c
    out.append(total - prev)
    return out


@st.composite
def logprob_matrix(draw, min_T=1, max_T=8, min_C=2, max_C=6, families=None, big_alphabet=False, long_lines=False):
    """(family, T x C float64 matrix of row-normalised log-probabilities, blank last)."""
    fam = draw(st.sampled_from(families or ["gauss", "peaky", "grid", "lowrows", "script"]))
    T = draw(st.integers(min_T, max_T))
    C = draw(st.integers(min_C, max_C))
    if big_alphabet and draw(st.integers(0, 5)) == 0:
        C = draw(st.integers(11, 14))       # more than ten symbols (two-digit indices)
        T = min(T, 3)
    blank = C - 1
    if big_alphabet and draw(st.integers(0, 11)) == 0:
        # an alphabet of realistic size (130-300 classes, more than fit into a signed byte): a few frames whose mass sits
        # on a small pool of symbols (so that repeats and joins occur) over a -30 floor
        C = draw(st.integers(130, 300) | st.integers(258, 320))       # every second table exceeds an unsigned byte as well
        T = draw(st.integers(1, 4))
        blank = C - 1
        pool = [draw(st.integers(0, C - 2)), draw(st.integers(128, C - 2)), draw(st.integers(max(0, C - 12), C - 2)), blank]
        rows = []
        for _ in range(T):
            r = [-30.0] * C
            for _ in range(draw(st.integers(1, 3))):
                r[draw(st.sampled_from(pool))] = -draw(st.floats(0.0, 3.0, allow_nan=False, width=32))
            rows.append(r)
        return "huge_alphabet", _log_softmax(rows)
    if long_lines and draw(st.integers(0, 7)) == 0:
        # a line of realistic length: a drawn path with runs and blanks, peaky rows with occasional competitors
        T = draw(st.integers(40, 160))
        C = draw(st.integers(3, 9))
        blank = C - 1
        seed = draw(st.integers(0, 2 ** 31 - 1))
        rs = np.random.RandomState(seed)
        rows = rs.uniform(-9, -5, size=(T, C))
        c = blank
        for t in range(T):
            if rs.uniform() < 0.45:
                c = int(rs.randint(0, C))
            rows[t, c] = rs.uniform(0, 3)
            if rs.uniform() < 0.15:
                rows[t, int(rs.randint(0, C))] = rs.uniform(-2, 1)
        return "long", _log_softmax(rows)
    if fam == "gauss":
        temp = draw(st.sampled_from([0.5, 1.0, 3.0, 8.0]))
        rows = [[draw(st.floats(-4, 4, allow_nan=False, width=32)) * temp for _ in range(C)] for _ in range(T)]
        M = _log_softmax(rows)
    elif fam == "peaky":
        rows = []
        floor = draw(st.sampled_from([-80.0, -80.0, -250.0]))      # posteriors of e^-80 and far below
        for _ in range(T):
            r = [floor] * C
            dom = draw(st.integers(0, C - 1))
            r[dom] = 0.0
            for _ in range(draw(st.integers(0, 2))):
                r[draw(st.integers(0, C - 1))] = -draw(st.floats(0.0, 12.0, allow_nan=False, width=32))
            r[dom] = max(r[dom], 0.0)
            rows.append(r)
        M = _log_softmax(rows)
    elif fam == "grid":
        den = draw(st.sampled_from([4, 8]))
        rows = []
        for _ in range(T):
            comp = draw(compositions(den, C))
            rows.append([math.log(x / den) if x else NEG for x in comp])
        M = np.asarray(rows, dtype=np.float64)
    elif fam == "lowrows":
        rows = []
        low_at = draw(st.sets(st.integers(0, T - 1), min_size=1, max_size=max(1, T // 2)))
        for t in range(T):
            if t in low_at:
                r = [-draw(st.floats(10.5, 30.0, allow_nan=False, width=32)) for _ in range(C)]
                r[blank] = 0.0
            else:
                r = [draw(st.floats(-4, 4, allow_nan=False, width=32)) for _ in range(C)]
            rows.append(r)
        M = _log_softmax(rows)
        # make sure the low rows really are below the -10 pre-selection threshold after normalisation
        for t in low_at:
            if C > 1 and M[t, :blank].size and M[t, :blank].max() > -10.0:
                M[t, :blank] -= (M[t, :blank].max() + 10.2)
                M[t] = _log_softmax([M[t]])[0]
    else:  # script: symbol patterns with noise (a a / a _ a / a b a ...)
        pat = draw(st.sampled_from(["aa", "a_a", "aba", "aab", "a__a", "ab", "_a_", "aaa", "a_b_a"]))
        sym = {"a": 0, "b": min(1, C - 2) if C > 2 else 0, "_": blank}
        seq = [sym[ch] for ch in pat]
        T = len(seq)
        noise = draw(st.sampled_from([0.3, 1.0, 2.5]))
        rows = []
        for t in range(T):
            r = [draw(st.floats(-1, 1, allow_nan=False, width=32)) * noise for _ in range(C)]
            r[seq[t]] += draw(st.sampled_from([1.0, 3.0, 6.0]))
            rows.append(r)
        M = _log_softmax(rows)
    return fam, M


def render_matrix(M):
    return np.array2string(np.asarray(M), precision=6, max_line_width=200, threshold=10000)
