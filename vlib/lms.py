"""Toy language models for the decoder checks.

HashLM   - pure Python, duck-typed to the methods the decoder calls; the state *is* the prefix, the score
           of a symbol is a float in [-6, 0] derived from SHA-256(seed, prefix, symbol): fully history
           dependent, exact, and computable outside the search.
ToyTorchLM - random-weight float64 LSTM LM with tuple state, used behind the real LMWrapper/HiddenState.
"""
import hashlib

import numpy as np


class HashState:
    def __init__(self, prefixes):
        self.p = [tuple(x) for x in prefixes]

    def __getitem__(self, idx):
        idx = np.atleast_1d(np.asarray(idx))
        return HashState([self.p[int(i)] for i in idx])

    def __setitem__(self, idx, other):
        idx = np.atleast_1d(np.asarray(idx))
        assert len(idx) == len(other.p)
        for i, q in zip(idx, other.p):
            self.p[int(i)] = q

    def __len__(self):
        return len(self.p)

    def __repr__(self):
        return "HashState(%r)" % (self.p,)


class HashLM:
    def __init__(self, seed, n_chars):
        self.seed = seed
        self.n = n_chars
        self.calls = 0
        self.harsh = seed % 5 == 0

    def score(self, prefix, c):
        key = tuple(int(x) if isinstance(x, (int, np.integer)) else x for x in prefix)
        d = hashlib.sha256(("%d|%r|%r" % (self.seed, key, c)).encode()).digest()
        if self.harsh and d[7] < 40:
            # a very sure LM: about one (context, symbol) pair in six is all but ruled out (log-probability -80 ... -300)
            return -80.0 - 220.0 * (int.from_bytes(d[:6], "big") / float(1 << 48))
        return -6.0 * (int.from_bytes(d[:6], "big") / float(1 << 48))

    def initial_h(self, batch_size):
        return HashState([()] * batch_size)

    def state_after(self, prefix):
        return HashState([tuple(prefix)])

    def log_probs(self, h):
        return np.array([[self.score(p, c) for c in range(self.n)] for p in h.p], dtype=np.float64).reshape(len(h.p), self.n)

    def advance_h0(self, x, h):
        self.calls += 1
        x = np.atleast_1d(np.asarray(x))
        assert len(x) == len(h.p)
        return HashState([p + (int(c),) for p, c in zip(h.p, x)])

    def eos_scores(self, h):
        return np.array([self.score(p, "eos") for p in h.p], dtype=np.float64)

    # used by PageDecoder
    def add_line_end(self, h):
        return HashState([p + ("nl",) for p in h.p])

    def initial_h_from_line(self, line):
        return HashState([("line", str(line))])

    def seq_score(self, start, transcript, bonus=0.0, eos=False):
        p = tuple(start)
        s = 0.0
        for c in transcript:
            s = s + self.score(p, int(c)) + bonus
            p = p + (int(c),)
        if eos:
            s += self.score(p, "eos")
        return s, p


def make_torch_lm(seed, chars, hidden=6, layers=1, emb=4):
    """float64 LSTM LM with vocab {'</s>':0, '<unk>':1, chars...}; returns the nn.Module (not wrapped)."""
    import torch

    g = torch.Generator().manual_seed(int(seed))

    class Inner(torch.nn.Module):
        def __init__(self):
            super().__init__()
            self.emb = torch.nn.Embedding(len(chars) + 2, emb)
            self.rnn = torch.nn.LSTM(emb, hidden, num_layers=layers, batch_first=True)

        def forward(self, x, h):
            out, h_new = self.rnn(self.emb(x), h)
            return out, h_new

        def init_hidden(self, bsz):
            z = torch.zeros((layers, bsz, hidden), dtype=torch.float64)
            return (z, z.clone())

    class Dec(torch.nn.Module):
        def __init__(self):
            super().__init__()
            self.lin = torch.nn.Linear(hidden, len(chars) + 2)
            self.drop = torch.nn.Dropout(0.3)       # LMs are trained with dropout; scoring must run in eval mode

        def forward(self, hs):
            return torch.log_softmax(self.lin(self.drop(hs)), dim=-1)

    class LM(torch.nn.Module):
        def __init__(self):
            super().__init__()
            self.model = Inner()
            self.decoder = Dec()
            self.vocab = {"</s>": 0, "<unk>": 1}
            for i, c in enumerate(chars):
                self.vocab[c] = i + 2
            self._unused_prefix_len = 2

    lm = LM().double()
    with torch.no_grad():
        for p in lm.parameters():
            p.copy_((torch.rand(p.shape, generator=g, dtype=torch.float64) - 0.5) * 3.0)
    lm.train()      # as loaded for fine-tuning: putting the model into eval mode is LMWrapper's job
    return lm
