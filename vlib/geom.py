"""Small analytic-geometry oracle helpers (no shapely)."""
import math

import numpy as np


def seg_dist(p, a, b):
    px, py = p
    ax, ay = a
    bx, by = b
    dx, dy = bx - ax, by - ay
    L2 = dx * dx + dy * dy
    if L2 == 0:
        return math.hypot(px - ax, py - ay)
    t = ((px - ax) * dx + (py - ay) * dy) / L2
    t = 0.0 if t < 0 else (1.0 if t > 1 else t)
    return math.hypot(px - (ax + t * dx), py - (ay + t * dy))


def boundary_dist(p, poly):
    n = len(poly)
    return min(seg_dist(p, poly[i], poly[(i + 1) % n]) for i in range(n))


def polyline_dist(p, line):
    return min(seg_dist(p, line[i], line[i + 1]) for i in range(len(line) - 1)) if len(line) > 1 else math.hypot(p[0] - line[0][0], p[1] - line[0][1])


def point_in_polygon(p, poly):
    """even-odd ray casting (boundary points: undefined - callers use boundary_dist for tolerance)."""
    x, y = p
    inside = False
    n = len(poly)
    j = n - 1
    for i in range(n):
        xi, yi = poly[i]
        xj, yj = poly[j]
        if (yi > y) != (yj > y):
            xint = (xj - xi) * (y - yi) / (yj - yi) + xi
            if x < xint:
                inside = not inside
        j = i
    return inside


def inside_tol(p, poly, tol):
    """inside or within tol of the boundary."""
    return point_in_polygon(p, poly) or boundary_dist(p, poly) <= tol


def convex_hull(points):
    pts = sorted(set((float(x), float(y)) for x, y in points))
    if len(pts) <= 2:
        return pts

    def cross(o, a, b):
        return (a[0] - o[0]) * (b[1] - o[1]) - (a[1] - o[1]) * (b[0] - o[0])
    lower = []
    for p in pts:
        while len(lower) >= 2 and cross(lower[-2], lower[-1], p) <= 0:
            lower.pop()
        lower.append(p)
    upper = []
    for p in reversed(pts):
        while len(upper) >= 2 and cross(upper[-2], upper[-1], p) <= 0:
            upper.pop()
        upper.append(p)
    return lower[:-1] + upper[:-1]


def polyline_length(line):
    return sum(math.hypot(line[i + 1][0] - line[i][0], line[i + 1][1] - line[i][1]) for i in range(len(line) - 1))


def sample_polyline(line, n):
    """n points equally spaced by arc length (including both ends)."""
    line = [(float(x), float(y)) for x, y in line]
    L = polyline_length(line)
    if L == 0 or n < 2:
        return [line[0]] * max(n, 1)
    out = []
    seg = 0
    acc = 0.0
    for k in range(n):
        target = L * k / (n - 1)
        while seg < len(line) - 2 and acc + math.hypot(line[seg + 1][0] - line[seg][0], line[seg + 1][1] - line[seg][1]) < target:
            acc += math.hypot(line[seg + 1][0] - line[seg][0], line[seg + 1][1] - line[seg][1])
            seg += 1
        sl = math.hypot(line[seg + 1][0] - line[seg][0], line[seg + 1][1] - line[seg][1])
        t = 0.0 if sl == 0 else min(1.0, max(0.0, (target - acc) / sl))
        out.append((line[seg][0] + t * (line[seg + 1][0] - line[seg][0]), line[seg][1] + t * (line[seg + 1][1] - line[seg][1])))
    return out


def arc_position(p, line):
    """arc-length coordinate of the point of `line` nearest to p."""
    best = None
    acc = 0.0
    for i in range(len(line) - 1):
        ax, ay = line[i]
        bx, by = line[i + 1]
        dx, dy = bx - ax, by - ay
        L2 = dx * dx + dy * dy
        sl = math.sqrt(L2)
        t = 0.0 if L2 == 0 else min(1.0, max(0.0, ((p[0] - ax) * dx + (p[1] - ay) * dy) / L2))
        d = math.hypot(p[0] - (ax + t * dx), p[1] - (ay + t * dy))
        if best is None or d < best[0]:
            best = (d, acc + t * sl)
        acc += sl
    return best[1]


def segments_intersect(a, b, c, d):
    def orient(p, q, r):
        v = (q[0] - p[0]) * (r[1] - p[1]) - (q[1] - p[1]) * (r[0] - p[0])
        return 0 if v == 0 else (1 if v > 0 else -1)

    def on(p, q, r):
        return min(p[0], q[0]) <= r[0] <= max(p[0], q[0]) and min(p[1], q[1]) <= r[1] <= max(p[1], q[1])
    o1, o2, o3, o4 = orient(a, b, c), orient(a, b, d), orient(c, d, a), orient(c, d, b)
    if o1 != o2 and o3 != o4:
        return True
    if o1 == 0 and on(a, b, c):
        return True
    if o2 == 0 and on(a, b, d):
        return True
    if o3 == 0 and on(c, d, a):
        return True
    if o4 == 0 and on(c, d, b):
        return True
    return False


def polyline_touches_polygon(line, poly):
    n = len(poly)
    for i in range(len(line) - 1):
        for j in range(n):
            if segments_intersect(line[i], line[i + 1], poly[j], poly[(j + 1) % n]):
                return True
    return point_in_polygon(line[0], poly)
