"""python -m vlib.mkreplay <ID> <unit> <python-literal-case> <out.json> [kind]  - hand-written replay file."""
import ast
import json
import sys

from vlib.core import encode_payload

prop, unit, lit, out = sys.argv[1:5]
kind = sys.argv[5] if len(sys.argv) > 5 else ""
case = ast.literal_eval(lit)
json.dump(dict(property=prop, unit=unit, kind=kind, detail="hand-written", render=repr(case), payload=encode_payload(case)),
          open(out, "w"), indent=1)
