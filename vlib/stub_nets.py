"""TorchScript-able stub recognisers (must live in a real .py file for torch.jit.script)."""
import torch


class TableNet(torch.nn.Module):
    """'Pixel table' recogniser: the logit of class c at frame t is read from image row c, column 4t
    (channel 0): logit = pixel * 20 - 10 (pixel in [0,1]); the blank (last class) gets +0.02 so that
    zero padding decodes to blank.  blur > 0 averages over +-blur frames (bounded receptive field)."""

    def __init__(self, n_classes: int, blur: int):
        super().__init__()
        self.n_classes = n_classes
        self.blur = blur
        bias = torch.zeros(1, n_classes, 1)
        bias[0, n_classes - 1, 0] = 0.02
        self.register_buffer("bias", bias)

    def forward(self, x: torch.Tensor) -> torch.Tensor:
        v = x[:, 0, :self.n_classes, ::4]
        logits = v * 20.0 - 10.0 + self.bias
        if self.blur > 0:
            logits = torch.nn.functional.avg_pool1d(logits, 2 * self.blur + 1, 1, self.blur, False, True)
        return logits


class TableNetEmb(torch.nn.Module):
    """TableNet with a writer/style embedding input: class (id mod (C-1)) gets +8 at every frame, so the output
    depends on the embedding id the engine passes along with the batch."""

    def __init__(self, n_classes: int, n_embed: int):
        super().__init__()
        self.n_classes = n_classes
        bias = torch.zeros(1, n_classes, 1)
        bias[0, n_classes - 1, 0] = 0.02
        self.register_buffer("bias", bias)
        self.embeddings_layer = torch.nn.Embedding(n_embed, 2)

    def forward(self, x: torch.Tensor, ids: torch.Tensor) -> torch.Tensor:
        v = x[:, 0, :self.n_classes, ::4]
        logits = v * 20.0 - 10.0 + self.bias
        hot = torch.nn.functional.one_hot(ids % (self.n_classes - 1), self.n_classes).to(logits.dtype)
        return logits + 8.0 * hot.unsqueeze(2)
