"""Builders for model-dependent stages driven by generated stubs (written to a scratch dir per process)."""
import atexit
import json
import os
import shutil
import tempfile

import numpy as np

_SCRATCH = None
_ENGINE_FILES = {}


def scratch_dir():
    global _SCRATCH
    if _SCRATCH is None:
        _SCRATCH = tempfile.mkdtemp(prefix="verif-stubs-")
        atexit.register(shutil.rmtree, _SCRATCH, True)
    return _SCRATCH


def engine_json(chars, height=16, blur=0, max_line_width=None, embed_num=None, embed_id=None):
    """writes <scratch>/ocr_<key>.json + TorchScript checkpoint; returns the json path."""
    import torch
    from vlib.stub_nets import TableNet, TableNetEmb
    key = (tuple(chars), height, blur, max_line_width, embed_num, embed_id)
    if key in _ENGINE_FILES:
        return _ENGINE_FILES[key]
    d = scratch_dir()
    name = "ocr_%d" % len(_ENGINE_FILES)
    net = torch.jit.script(TableNet(len(chars) + 1, blur) if embed_num is None else TableNetEmb(len(chars) + 1, embed_num))
    net.save(os.path.join(d, name + ".pt.cpu"))
    cfg = dict(line_px_height=height, line_vertical_scale=1.0, checkpoint=name + ".pt", characters=list(chars),
               net_name="verif-table-stub")
    if max_line_width:
        cfg["max_line_width"] = max_line_width
    if embed_num is not None:
        cfg["embed_num"] = embed_num
        cfg["embed_id"] = embed_id
    p = os.path.join(d, name + ".json")
    with open(p, "w", encoding="utf8") as f:
        json.dump(cfg, f)
    _ENGINE_FILES[key] = p
    return p


def make_pytorch_engine(chars, height=16, blur=0, batch_size=8):
    import torch
    from pero_ocr.ocr_engine.pytorch_ocr_engine import PytorchEngineLineOCR
    return PytorchEngineLineOCR(engine_json(chars, height, blur), torch.device("cpu"), batch_size=batch_size)


def paint_logits(table, height=16, tail_px=0):
    """table: T x C array of grey levels 0..255 (class scores per frame) -> H x (4T - tail) x 3 uint8 crop."""
    table = np.asarray(table, dtype=np.uint8)
    T, C = table.shape
    assert C <= height
    img = np.zeros((height, 4 * T, 3), dtype=np.uint8)
    for k in range(4):
        img[:C, k::4, :] = table.T[:, :, None]
    if tail_px:
        img = img[:, :img.shape[1] - tail_px]
    return img


def paint_classes(classes, n_classes, height=16, tail_px=0, hi=255, lo=0):
    """one-hot-ish table: class c at frame t gets grey level hi, the others lo (blank = n_classes-1)."""
    table = np.full((len(classes), n_classes), lo, dtype=np.uint8)
    for t, c in enumerate(classes):
        table[t, c] = hi
    return paint_logits(table, height, tail_px)
