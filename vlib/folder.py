"""In-process driver for user_scripts/parse_folder.py with fault injection at the output write sites."""
import contextlib
import importlib.util
import io
import os
import pickle
import re
import shutil
import sys
import tempfile

import numpy as np

OUTPUT_KINDS = ("xml", "render", "logits", "alto", "lines")     # the order in which Computator writes them
CHARS = list("abcde ")
_PF = None


class Crash(BaseException):
    """stands for the process being killed: passes through 'except Exception' in Computator.__call__."""


def parse_folder_module():
    global _PF
    if _PF is None:
        path = os.path.join(os.environ.get("VERIF_REPO", "/repo"), "user_scripts", "parse_folder.py")
        spec = importlib.util.spec_from_file_location("verif_parse_folder", path)
        _PF = importlib.util.module_from_spec(spec)
        sys.modules["verif_parse_folder"] = _PF
        spec.loader.exec_module(_PF)
    return _PF


def page_image(seed, h=200, w=320):
    rs = np.random.RandomState(seed)
    yy, xx = np.mgrid[0:h, 0:w]
    base = np.stack([(xx * 3 + yy * 5 + seed % 89) % 256, (xx * 7 + yy * 2) % 256, (xx + yy * 11) % 256], axis=2)
    return ((base + rs.randint(0, 40, size=(h, w, 3))) % 256).astype(np.uint8)


def make_job(root, page_ids, lines_per_page, seeds, heightless=False, with_text=False):
    """creates <root>/img, <root>/xml (inputs) and <root>/config.ini; returns dict of paths."""
    import cv2
    from pero_ocr.core.layout import PageLayout, RegionLayout, TextLine
    from vlib.stubs import engine_json
    img_dir = os.path.join(root, "img")
    xml_dir = os.path.join(root, "xml")
    os.makedirs(img_dir)
    os.makedirs(xml_dir)
    for pid, n_lines, seed in zip(page_ids, lines_per_page, seeds):
        img = page_image(seed)
        assert cv2.imwrite(os.path.join(img_dir, pid + ".png"), img)
        pl = PageLayout(id=pid, page_size=img.shape[:2])
        reg = RegionLayout("r1", np.asarray([[2, 2], [318, 2], [318, 198], [2, 198]], dtype=np.float64))
        for li in range(n_lines):
            y = 40.0 + 50 * li
            base = np.asarray([[10.0 + 7 * li, y], [250.0 - 20 * li, y + (li % 2) * 2]])
            poly = np.asarray([[base[0, 0], y - 12], [base[1, 0], y - 12], [base[1, 0], y + 4], [base[0, 0], y + 4]])
            heights = [12.0, 4.0]
            if heightless and li == 0:
                # as imported from other tools: no stored heights (they are guessed from the polygon on import), a
                # baseline of many points and an outline whose thickness varies along the line
                xs = np.linspace(base[0, 0], base[1, 0], 14)
                base = np.stack([xs, np.full_like(xs, y)], axis=1)
                up = np.stack([xs, y - 8 - 6 * (np.arange(14) % 3)], axis=1)
                down = np.stack([xs[::-1], np.full(14, y + 4.0)], axis=1)
                poly = np.concatenate([up, down], axis=0)
                heights = None
            reg.lines.append(TextLine(id="r1-l%03d" % (li + 1), baseline=base, polygon=poly, heights=heights,
                                      transcription=("text %d of %s" % (li, pid)) if with_text else None))
        pl.regions = [reg]
        pl.to_pagexml(os.path.join(xml_dir, pid + ".xml"))
    cfg = os.path.join(root, "config.ini")
    with open(cfg, "w") as f:
        f.write("[PAGE_PARSER]\nRUN_LAYOUT_PARSER = no\nRUN_LINE_CROPPER = yes\nRUN_OCR = yes\nRUN_DECODER = no\n\n"
                "[LINE_CROPPER]\nINTERP = 2\nLINE_SCALE = 1\nLINE_HEIGHT = 16\n\n"
                "[OCR]\nMETHOD = pytorch_ocr\nOCR_JSON = %s\nUSE_CPU = yes\n" % engine_json(CHARS, 16, 0))
    # the same configuration with the script's own section (a non-default logging level)
    cfg_info = os.path.join(root, "config_info.ini")
    with open(cfg_info, "w") as f:
        f.write(open(cfg).read() + "\n[PARSE_FOLDER]\nLOGGING_LEVEL = INFO\n")
    return dict(root=root, img=img_dir, xml=xml_dir, config=cfg, config_info=cfg_info)


def out_dirs(root, name, kinds):
    base = os.path.join(root, name)
    return {k: os.path.join(base, k) for k in kinds}


def argv_for(job, outs, skip=False, process_count=1, skip_missing_xml=False, transcriptions_file=None, paths_in_config=False, no_xml=False):
    flag = {"xml": "--output-xml-path", "render": "--output-render-path", "logits": "--output-logit-path",
            "alto": "--output-alto-path", "lines": "--output-line-path"}
    if paths_in_config:
        # the documented alternative to the command-line options: all paths in the [PARSE_FOLDER] section of the configuration
        import hashlib
        keys = {"xml": "OUTPUT_XML_PATH", "render": "OUTPUT_RENDER_PATH", "logits": "OUTPUT_LOGIT_PATH", "alto": "OUTPUT_ALTO_PATH",
                "lines": "OUTPUT_LINE_PATH"}
        base = open(job["config"]).read()
        sect = "" if "[PARSE_FOLDER]" in base else "\n[PARSE_FOLDER]\n"
        body = base + sect + "INPUT_IMAGE_PATH = %s\n" % job["img"].replace("%", "%%")
        if not no_xml:
            body += "INPUT_XML_PATH = %s\n" % job["xml"].replace("%", "%%")
        body += "".join("%s = %s\n" % (keys[k], d.replace("%", "%%")) for k, d in outs.items())
        cfg = os.path.join(job["root"], "config_paths_%s.ini" % hashlib.sha1(body.encode()).hexdigest()[:10])
        with open(cfg, "w") as f:
            f.write(body)
        a = ["parse_folder.py", "-c", cfg, "--device", "cpu", "--process-count", str(process_count)]
    else:
        a = ["parse_folder.py", "-c", job["config"], "-i", job["img"]] + ([] if no_xml else ["-x", job["xml"]]) + [
            "--device", "cpu", "--process-count", str(process_count)]
        for k, d in outs.items():
            a += [flag[k], d]
    if skip:
        a.append("-s")
    if skip_missing_xml:
        a.append("--skipp-missing-xml")
    if transcriptions_file:
        a += ["--output-transcriptions-file-path", transcriptions_file]
    return a


class Injector:
    """counts writes at the five output sites of Computator.__call__ and crashes *before* write number `crash_at`."""

    def __init__(self, crash_at=None):
        self.crash_at = crash_at
        self.count = 0
        self.writes = []        # (kind, basename)
        self.processed = []     # file ids handed to Computator.__call__

    def before(self, kind, path):
        if self.crash_at is not None and self.count == self.crash_at:
            raise Crash("killed before write %d (%s %s)" % (self.count, kind, os.path.basename(path)))
        self.count += 1
        self.writes.append((kind, os.path.basename(path)))


@contextlib.contextmanager
def injected(inj):
    pf = parse_folder_module()
    from pero_ocr.core.layout import PageLayout
    import cv2
    o_xml, o_alto, o_logits, o_imwrite, o_call = (PageLayout.to_pagexml, PageLayout.to_altoxml, PageLayout.save_logits,
                                                  cv2.imwrite, pf.Computator.__call__)

    def to_pagexml(self, file_name, *a, **k):
        inj.before("xml", file_name)
        return o_xml(self, file_name, *a, **k)

    def to_altoxml(self, file_name, *a, **k):
        inj.before("alto", file_name)
        return o_alto(self, file_name, *a, **k)

    def save_logits(self, file_name, *a, **k):
        inj.before("logits", file_name)
        return o_logits(self, file_name, *a, **k)

    def imwrite(path, *a, **k):
        inj.before("image", path)
        return o_imwrite(path, *a, **k)

    def call(self, image_file_name, file_id, index, ids_count):
        inj.processed.append(file_id)
        return o_call(self, image_file_name, file_id, index, ids_count)
    PageLayout.to_pagexml, PageLayout.to_altoxml, PageLayout.save_logits = to_pagexml, to_altoxml, save_logits
    cv2.imwrite = imwrite
    pf.Computator.__call__ = call
    try:
        yield
    finally:
        PageLayout.to_pagexml, PageLayout.to_altoxml, PageLayout.save_logits = o_xml, o_alto, o_logits
        cv2.imwrite = o_imwrite
        pf.Computator.__call__ = o_call


def run_main(argv, inj=None):
    """returns ('ok'|'crash'|'exit:<code>'|'error:<exc>', injector)."""
    pf = parse_folder_module()
    inj = inj or Injector()
    old = sys.argv
    sys.argv = list(argv)
    out = io.StringIO()
    try:
        with injected(inj), contextlib.redirect_stdout(out), contextlib.redirect_stderr(io.StringIO()):
            try:
                pf.main()
                status = "ok"
            except Crash:
                status = "crash"
            except SystemExit as e:
                status = "ok" if e.code in (0, None) else "exit:%r" % (e.code,)
            except Exception as e:  # noqa
                status = "error:%s: %s" % (type(e).__name__, e)
    finally:
        sys.argv = old
        import logging
        for h in list(logging.getLogger().handlers):
            logging.getLogger().removeHandler(h)
    inj.stdout = out.getvalue()
    return status, inj


TS = [re.compile(rb"<Created>[^<]*</Created>"), re.compile(rb"<LastChange>[^<]*</LastChange>"),
      re.compile(rb"<processingDateTime>[^<]*</processingDateTime>")]


def snapshot(outs):
    """{kind: {filename: canonical content}}"""
    snap = {}
    for k, d in outs.items():
        files = {}
        if os.path.isdir(d):
            for fn in sorted(os.listdir(d)):
                data = open(os.path.join(d, fn), "rb").read()
                if fn.endswith(".xml"):
                    for r in TS:
                        data = r.sub(b"", data)
                elif fn.endswith(".logits"):
                    obj = pickle.loads(data)
                    canon = []
                    for key in sorted(obj, key=str):
                        v = obj[key]
                        if hasattr(v, "toarray"):
                            canon.append((str(key), v.shape, v.toarray().tobytes()))
                        else:
                            canon.append((str(key), repr(v)))
                    data = repr(canon).encode()
                files[fn] = data
        snap[k] = files
    return snap


def diff_snapshots(a, b):
    out = []
    for k in sorted(set(a) | set(b)):
        fa, fb = a.get(k, {}), b.get(k, {})
        for fn in sorted(set(fa) | set(fb)):
            if fn not in fa:
                out.append("%s/%s only in second" % (k, fn))
            elif fn not in fb:
                out.append("%s/%s missing in second" % (k, fn))
            elif fa[fn] != fb[fn]:
                out.append("%s/%s differs" % (k, fn))
    return out


@contextlib.contextmanager
def scratch():
    d = tempfile.mkdtemp(prefix="verif-folder-")
    try:
        yield d
    finally:
        shutil.rmtree(d, ignore_errors=True)
