"""./check <ID> --tier quick|thorough   |   ./check <ID> --replay <file>

Exit 0: property held on everything explored.  Exit 1: "VIOLATION property=<ID> replay=<path>".
Exit 2: harness error (never reported as a violation).
"""
import argparse
import glob
import hashlib
import importlib
import json
import re
import os
import subprocess
import sys
import tempfile
import time
from collections import Counter
from concurrent.futures import ThreadPoolExecutor

from vlib.core import Ctx, PropertyViolation, decode_payload
from vlib.known import load_known, ROOT


def find_module(prop):
    hits = sorted(glob.glob(os.path.join(ROOT, "checks", prop.lower() + "_*.py")))
    if not hits:
        print("no check module for", prop)
        sys.exit(2)
    return os.path.basename(hits[0])[:-3]


def replay_file(mod, path, quiet=False):
    """Returns (failed_kind or None, detail)."""
    with open(path) as f:
        rec = json.load(f)
    unit = [u for u in mod.UNITS if u.name == rec["unit"]][0]
    ctx = Ctx(mod.PROPERTY, unit.name, "replay", ())
    case = decode_payload(rec["payload"])
    try:
        if unit.driver == "machine":
            unit.machine(ctx).replay(ctx, case)
        else:
            unit.body(ctx, case)
    except PropertyViolation as v:
        return v.kind, v.detail
    except Exception as e:  # noqa: BLE001
        where = ctx.blame(e)
        if where is None:
            raise
        return "code_under_test_raises", "%s: %s at %s" % (type(e).__name__, str(e)[:300], where)
    return None, ""


def replay_safely(prop, path):
    """replay in a child process: a crash of the interpreter inside the code under test is a verdict, not the end of the runner"""
    cmd = [sys.executable, "-m", "vlib.runner", prop, "--replay", path, "--inproc"]
    p = subprocess.run(cmd, cwd=ROOT, stdout=subprocess.PIPE, stderr=subprocess.STDOUT, text=True, timeout=3600)
    if p.returncode == 0:
        return None, ""
    if p.returncode == 1:
        m = re.search(r"^replay fails: kind=(\S+) detail=(.*)$", p.stdout, re.M | re.S)
        if m:
            return m.group(1), m.group(2).split("\nVIOLATION property=")[0]
    if p.returncode < 0 or p.returncode in (132, 134, 136, 139):
        return "interpreter_crash", "the Python process died (exit status %s) while replaying" % p.returncode
    raise RuntimeError("replay process failed (rc=%s): %s" % (p.returncode, p.stdout[-1500:]))


def run_worker(task):
    modname, unit, shard, nshards, tier, seed, out, env = task
    cmd = [sys.executable, "-m", "vlib.worker", modname, unit, str(shard), str(nshards), tier, str(seed), out]
    limit = int(os.environ.get("VERIF_WORKER_TIMEOUT", "1500" if tier == "quick" else "7200"))
    try:
        p = subprocess.run(cmd, env=env, cwd=ROOT, stdout=subprocess.PIPE, stderr=subprocess.STDOUT, text=True, timeout=limit)
    except subprocess.TimeoutExpired:
        # a time budget hit is inconclusive, never a violation
        return dict(module=modname, unit=unit, shard=shard, failures=[], log="",
                    error="worker exceeded its %d s time budget (inconclusive)" % limit)
    if os.path.exists(out) and os.path.getsize(out):
        with open(out) as f:
            res = json.load(f)
    elif p.returncode < 0 or p.returncode in (132, 134, 136, 139):
        # the interpreter itself died (segmentation fault, abort) - native code reached through the code under test.
        # Run the shard once more with a journal of the case about to be executed and report that case.
        journal = out + ".journal"
        env2 = dict(env, VERIF_JOURNAL=journal)
        try:
            p2 = subprocess.run(cmd, env=env2, cwd=ROOT, stdout=subprocess.PIPE, stderr=subprocess.STDOUT, text=True, timeout=limit)
        except subprocess.TimeoutExpired:
            p2 = None
        if p2 is not None and (p2.returncode < 0 or p2.returncode in (132, 134, 136, 139)) and os.path.exists(journal):
            with open(journal) as jf:
                j = json.load(jf)
            res = dict(module=modname, unit=unit, shard=shard, evaluations=0, classes={}, digests=[], samples=[], excluded={}, wall_s=0.0,
                       failures=[dict(kind="interpreter_crash", payload=j["payload"], render=j.get("render", ""),
                                      detail="the Python process died (exit status %s) while this case was running" % p2.returncode)])
        else:
            res = dict(module=modname, unit=unit, shard=shard, failures=[],
                       error="worker died (rc=%s) and the crash did not repeat under the journal: %s" % (p.returncode, p.stdout[-3000:]))
    else:
        res = dict(module=modname, unit=unit, shard=shard, failures=[],
                   error="worker died (rc=%s): %s" % (p.returncode, p.stdout[-3000:]))
    res["log"] = p.stdout[-2000:]
    return res


def main():
    ap = argparse.ArgumentParser()
    ap.add_argument("prop")
    ap.add_argument("--tier", default=os.environ.get("VERIF_TIER", "quick"), choices=["quick", "thorough"])
    ap.add_argument("--replay")
    ap.add_argument("--units")
    ap.add_argument("--jobs", type=int, default=int(os.environ.get("VERIF_JOBS", "16")))
    ap.add_argument("--no-evidence", action="store_true")
    ap.add_argument("--inproc", action="store_true", help=argparse.SUPPRESS)
    args = ap.parse_args()
    prop = args.prop.upper()
    seed = int(os.environ.get("VERIF_SEED", "20261004") or 20261004)
    t0 = time.time()

    modname = find_module(prop)
    try:
        mod = importlib.import_module("checks." + modname)
    except Exception as e:  # noqa
        import traceback
        traceback.print_exc()
        print("HARNESS-ERROR property=%s cannot import check module: %s" % (prop, e))
        sys.exit(2)

    if args.replay:
        kind, detail = replay_file(mod, args.replay) if args.inproc else replay_safely(prop, args.replay)
        if kind:
            print("replay fails: kind=%s detail=%s" % (kind, detail))
            print("VIOLATION property=%s replay=%s" % (prop, args.replay))
            sys.exit(1)
        print("replay passes")
        sys.exit(0)

    violations = []      # (unit, kind, detail, path)
    errors = []
    known_lines = []

    # ---- pinned replays: regressions of repaired defects, known findings (each in its own child process) ----
    pinned_paths = [os.path.join(ROOT, e["replay"]) for e in load_known() if e["property"] == prop and e["replay"]]
    pinned_paths += [p for p in sorted(glob.glob(os.path.join(ROOT, "replays", "regress", prop + "-*.json"))) if p not in pinned_paths]
    pool = ThreadPoolExecutor(max_workers=min(8, max(1, len(pinned_paths))))
    futures = {p: pool.submit(replay_safely, prop, p) for p in pinned_paths}
    pinned = {p: f.result for p, f in futures.items()}
    n_regress = 0
    for e in load_known():
        if e["property"] != prop or not e["replay"]:
            continue
        path = os.path.join(ROOT, e["replay"])
        try:
            kind, detail = pinned[path]()
        except Exception as ex:  # noqa
            errors.append("replay %s: %s: %s" % (e["replay"], type(ex).__name__, ex))
            continue
        if e["status"] == "fixed":
            n_regress += 1
            if kind:
                violations.append(("regress", kind, detail, e["replay"]))
        else:
            if kind:
                known_lines.append("KNOWN-FINDING: property=%s %s" % (prop, e["what"]))
            else:
                print("note: known finding key=%s no longer reproduces from %s" % (e["key"], e["replay"]))
    for path in sorted(glob.glob(os.path.join(ROOT, "replays", "regress", prop + "-*.json"))):
        rel = os.path.relpath(path, ROOT)
        if any(e["replay"] == rel for e in load_known()):
            continue
        n_regress += 1
        kind, detail = pinned[path]()
        if kind:
            violations.append(("regress", kind, detail, rel))

    # ---- generated search ----
    env = dict(os.environ)
    repo = os.environ.get("VERIF_REPO", "/repo")
    env["VERIF_REPO"] = repo
    env["PYTHONPATH"] = repo + os.pathsep + ROOT
    env["PYTHONHASHSEED"] = "0"
    for k in ("OMP_NUM_THREADS", "MKL_NUM_THREADS", "OPENBLAS_NUM_THREADS", "NUMEXPR_NUM_THREADS"):
        env[k] = "1"
    env["NUMBA_NUM_THREADS"] = "1"
    env["PYTHONDONTWRITEBYTECODE"] = "1"

    units = mod.UNITS
    if args.units:
        want = set(args.units.split(","))
        units = [u for u in units if u.name in want]
    tmp = tempfile.mkdtemp(prefix="verif-%s-" % prop)
    tasks = []
    for u in units:
        if u.driver == "enum" and args.tier == "quick" and not u.quick_enum:
            continue
        ns = (u.shards_quick or 4) if args.tier == "quick" else (u.shards_thorough or 16)
        for s in range(ns):
            out = os.path.join(tmp, "%s-%d.json" % (u.name, s))
            tasks.append((modname, u.name, s, ns, args.tier, seed, out, env))
    with ThreadPoolExecutor(max_workers=args.jobs) as ex:
        results = list(ex.map(run_worker, tasks))
    import shutil
    shutil.rmtree(tmp, ignore_errors=True)

    per_unit = {}
    for r in results:
        pu = per_unit.setdefault(r["unit"], dict(evaluations=0, digests=set(), classes=Counter(), samples=[],
                                                 excluded=Counter(), shards=0, wall_s=0.0))
        if r.get("error"):
            errors.append("unit %s shard %s: %s" % (r["unit"], r["shard"], r["error"]))
            continue
        pu["shards"] += 1
        pu["evaluations"] += r["evaluations"]
        pu["digests"].update(r["digests"])
        pu["classes"].update(r["classes"])
        pu["excluded"].update(r["excluded"])
        pu["wall_s"] = max(pu["wall_s"], r["wall_s"])
        for s in r["samples"]:
            if len(pu["samples"]) < 3:
                pu["samples"].append(s)
        for f in r["failures"]:
            violations.append((r["unit"], f["kind"], f["detail"], f))

    # ---- write replay files for new violations (one per (unit, kind): the smallest rendering) ----
    best = {}
    for unit, kind, detail, f in violations:
        if isinstance(f, str):
            best[(unit, kind, f)] = (detail, f)
            continue
        k = (unit, kind)
        if k not in best or len(f["render"]) < len(best[k][1]["render"]):
            best[k] = (detail, f)
    out_lines = []
    for k, (detail, f) in sorted(best.items(), key=lambda kv: str(kv[0])):
        unit, kind = k[0], k[1]
        if isinstance(f, str):
            path = f
        else:
            os.makedirs(os.path.join(ROOT, "replays", "found"), exist_ok=True)
            h = hashlib.sha1((f["payload"]).encode()).hexdigest()[:10]
            path = os.path.join("replays", "found", "%s-%s-%s.json" % (prop, unit, h))
            with open(os.path.join(ROOT, path), "w") as fh:
                json.dump(dict(property=prop, unit=unit, kind=kind, detail=detail, render=f["render"],
                               payload=f["payload"], seed=seed, tier=args.tier), fh, indent=1)
        out_lines.append("  violation unit=%s kind=%s detail=%s" % (unit, kind, str(detail)[:400]))
        out_lines.append("VIOLATION property=%s replay=%s" % (prop, path))

    # ---- evidence ----
    all_digests = set()
    evals = 0
    classes = {}
    samples = []
    excluded = Counter()
    units_ev = {}
    exhaustive_units = []
    for u in units:
        pu = per_unit.get(u.name)
        if not pu:
            continue
        evals += pu["evaluations"]
        all_digests |= {u.name + ":" + d for d in pu["digests"]}
        excluded.update(pu["excluded"])
        units_ev[u.name] = dict(driver=u.driver, evaluations=pu["evaluations"],
                                distinct_nontrivial=len(pu["digests"]), shards=pu["shards"],
                                classes=dict(sorted(pu["classes"].items())), wall_s=pu["wall_s"],
                                exhaustive=bool(u.driver == "enum" and u.exhaustive))
        if u.driver == "enum" and u.exhaustive:
            exhaustive_units.append(u.name)
        for s in pu["samples"][:2]:
            samples.append({"unit": u.name, "case": s})
    wall = round(time.time() - t0, 2)
    ev = dict(property_id=prop, tier=args.tier, seed=seed, level=mod.LEVEL,
              coverage=dict(evaluations=evals, distinct_nontrivial=len(all_digests), rule=mod.RULE,
                            samples=samples, units=units_ev, regression_replays=n_regress,
                            excluded_known=dict(excluded), exhaustive=False,
                            exhaustive_units=exhaustive_units,
                            known_findings_reproduced=len(known_lines)),
              assumptions=list(getattr(mod, "ASSUMPTIONS", [])), wall_s=wall,
              violations=len([l for l in out_lines if l.startswith("VIOLATION")]))
    if not args.no_evidence and not args.units:
        os.makedirs(os.path.join(ROOT, "evidence"), exist_ok=True)
        with open(os.path.join(ROOT, "evidence", prop + ".json"), "w") as fh:
            json.dump(ev, fh, indent=1, ensure_ascii=False, default=str)

    for name, ue in units_ev.items():
        print("unit %-28s %-8s evaluations=%-7d distinct_nontrivial=%-6d wall=%.1fs" % (
            name, ue["driver"], ue["evaluations"], ue["distinct_nontrivial"], ue["wall_s"]))
    for l in known_lines:
        print(l)
    for l in out_lines:
        print(l)
    if errors:
        for e in errors:
            print("HARNESS-ERROR property=%s %s" % (prop, e))
    print("property=%s tier=%s seed=%d evaluations=%d distinct_nontrivial=%d regress_replays=%d wall=%.1fs" % (
        prop, args.tier, seed, evals, len(all_digests), n_regress, wall))
    if any(l.startswith("VIOLATION") for l in out_lines):
        sys.exit(1)
    if errors:
        sys.exit(2)
    sys.exit(0)


if __name__ == "__main__":
    main()
