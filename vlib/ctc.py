"""Independent CTC oracles (written from the definition; share no code with pero_ocr.decoding).

Transcripts are tuples of symbol indices; the blank is the last column.
"""
import itertools
import math

import numpy as np

NEG = float("-inf")


def lae(a, b):
    if a == NEG:
        return b
    if b == NEG:
        return a
    m = a if a > b else b
    return m + math.log1p(math.exp(-abs(a - b)))


def lse(xs):
    xs = [x for x in xs if x != NEG]
    if not xs:
        return NEG
    m = max(xs)
    return m + math.log(sum(math.exp(x - m) for x in xs))


def collapse(path, blank):
    out = []
    prev = None
    for s in path:
        if s != prev and s != blank:
            out.append(s)
        prev = s
    return tuple(out)


def brute_force_scores(logp):
    """O1: all C^T labellings -> {transcript: log sum of path probabilities} (finite entries only)."""
    T, C = logp.shape
    blank = C - 1
    acc = {}
    rows = [[float(x) for x in r] for r in logp]
    for path in itertools.product(range(C), repeat=T):
        s = 0.0
        for t, c in enumerate(path):
            v = rows[t][c]
            if v == NEG:
                s = NEG
                break
            s += v
        if s == NEG:
            continue
        acc.setdefault(collapse(path, blank), []).append(s)
    return {k: lse(v) for k, v in acc.items()}


def forward_score(logp, transcript):
    """O2: CTC forward (alpha) recursion for one transcript."""
    T, C = logp.shape
    blank = C - 1
    ext = [blank]
    for c in transcript:
        ext += [c, blank]
    S = len(ext)
    alpha = [NEG] * S
    alpha[0] = float(logp[0, blank])
    if S > 1:
        alpha[1] = float(logp[0, ext[1]])
    for t in range(1, T):
        new = [NEG] * S
        for s in range(S):
            a = alpha[s]
            if s >= 1:
                a = lae(a, alpha[s - 1])
            if s >= 2 and ext[s] != blank and ext[s] != ext[s - 2]:
                a = lae(a, alpha[s - 2])
            v = float(logp[t, ext[s]])
            new[s] = NEG if (a == NEG or v == NEG) else a + v
        alpha = new
    return lae(alpha[-1], alpha[-2]) if S > 1 else alpha[-1]


class BeamResult:
    def __init__(self):
        self.hyps = {}          # transcript -> (vis, lm)
        self.ambiguous = False  # a beam cut or a symbol selection fell within the tie tolerance
        self.dropped = False    # the beam dropped a finite candidate
        self.joined = False     # a prefix reached by extension was already in the beam
        self.preselected = False  # the per-frame symbol selection removed a symbol of non-zero probability
        self.skipped_frames = 0
        self.reordered = False


def ref_prefix_beam_search(logp, k, thresh=-10.0, lm=None, scale=1.0, bonus=0.0, tie_tol=1e-9):
    """O3: textbook frame-synchronous CTC prefix beam search.

    thresh: symbols with log-prob <= thresh are impossible in that frame (None = no pre-selection).
    lm: callable (prefix_tuple, symbol) -> score of symbol after prefix; ranking total = vis + scale*lm.
    """
    T, C = logp.shape
    blank = C - 1
    res = BeamResult()
    beam = {(): (0.0, NEG)}
    lms = {(): 0.0}
    for t in range(T):
        row = [float(x) for x in logp[t]]
        if thresh is None:
            sel = list(range(C - 1))
        else:
            sel = [c for c in range(C - 1) if row[c] > thresh]
            if any(abs(row[c] - thresh) < tie_tol for c in range(C - 1)):
                res.ambiguous = True
            if any(row[c] <= thresh and row[c] != NEG for c in range(C - 1)):
                res.preselected = True
        if not sel:
            res.skipped_frames += 1
            beam = {p: (lae(pb, pnb) + row[blank], NEG) for p, (pb, pnb) in beam.items()}
            continue
        new = {}
        newlm = {}
        for p, (pb, pnb) in beam.items():
            tot = lae(pb, pnb)
            last = p[-1] if p else None
            b_stay = tot + row[blank] if row[blank] != NEG else NEG
            nb_stay = pnb + row[last] if (last is not None and last in sel and row[last] != NEG) else NEG
            ob, onb = new.get(p, (NEG, NEG))
            new[p] = (lae(ob, b_stay), lae(onb, nb_stay))
            newlm[p] = lms[p]
            for c in sel:
                if row[c] == NEG:
                    continue
                val = (pb if c == last else tot)
                val = NEG if val == NEG else val + row[c]
                if val == NEG:
                    continue
                q = p + (c,)
                if q in beam:
                    res.joined = True
                ob, onb = new.get(q, (NEG, NEG))
                new[q] = (ob, lae(onb, val))
                if q not in newlm:
                    newlm[q] = (lms[p] + lm(p, c) + bonus) if lm is not None else 0.0
        scored = []
        for p, (pb, pnb) in new.items():
            vis = lae(pb, pnb)
            if vis == NEG:
                continue
            total = vis + (scale * newlm[p] if lm is not None else 0.0)
            scored.append((total, p))
        scored.sort(key=lambda x: -x[0])
        if len(scored) > k:
            res.dropped = True
            if abs(scored[k - 1][0] - scored[k][0]) < tie_tol * (1 + abs(scored[k][0])):
                res.ambiguous = True
            scored = scored[:k]
        old_order = [p for p in beam]
        beam = {p: new[p] for _, p in scored}
        lms = {p: newlm[p] for _, p in scored}
        if [p for p in beam if p in old_order] != [p for p in old_order if p in beam]:
            res.reordered = True
    for p, (pb, pnb) in beam.items():
        res.hyps[p] = (lae(pb, pnb), lms[p])
    return res
