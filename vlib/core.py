"""Core types shared by the runner, the worker and the check modules.

A *check module* (checks/cNN_*.py) exposes

    PROPERTY = "C13"
    LEVEL = "exploration"
    RULE = "..."            # how cases are generated, what makes one non-trivial
    ASSUMPTIONS = [...]
    UNITS = [Unit(...), ...]

A Unit is one executable property over generated cases.  Three drivers exist:

* ``given``   - Hypothesis ``@given(strategy)``; ``body(ctx, case)``
* ``machine`` - Hypothesis ``RuleBasedStateMachine`` built by ``machine(ctx)``;
                the machine logs plain-data operations so that a history can be
                replayed without Hypothesis (``replay_history``)
* ``enum``    - complete enumeration of a finite domain ``cases(tier)``,
                sharded by index; same ``body(ctx, case)``

Bodies signal a broken property by raising PropertyViolation(kind, detail).
"""
import base64
import hashlib
import pickle
from collections import Counter


class PropertyViolation(Exception):
    def __init__(self, kind, detail=""):
        super().__init__("%s: %s" % (kind, detail))
        self.kind = kind
        self.detail = detail


class Unit:
    def __init__(self, name, driver, body=None, strategy=None, machine=None, cases=None,
                 quick=100, thorough=1000, render=None, known=None, replay_history=None,
                 steps=None, shards_quick=None, shards_thorough=None, exhaustive=False,
                 quick_enum=True, shrink_quick=True):
        assert driver in ("given", "machine", "enum")
        self.name = name
        self.driver = driver
        self.body = body
        self.strategy = strategy          # callable () -> SearchStrategy (built lazily in the worker)
        self.machine = machine            # callable (ctx) -> RuleBasedStateMachine subclass
        self.cases = cases                # callable (tier) -> sequence of cases
        self.quick = quick
        self.thorough = thorough
        self.render = render or default_render
        self.known = known or {}          # key -> predicate(kind, case, detail) -> bool
        self.replay_history = replay_history
        self.steps = steps                # stateful_step_count
        self.shards_quick = shards_quick
        self.shards_thorough = shards_thorough
        self.exhaustive = exhaustive
        self.quick_enum = quick_enum      # enum units: run in the quick tier as well?
        self.shrink_quick = shrink_quick  # expensive units: report the first failing case unshrunk in the quick tier


def default_render(case):
    r = repr(case)
    if len(r) > 1500:
        r = r[:1500] + "...(%d chars)" % len(r)
    return r


def encode_payload(obj):
    return base64.b64encode(pickle.dumps(obj, protocol=4)).decode("ascii")


def decode_payload(s):
    return pickle.loads(base64.b64decode(s.encode("ascii")))


class Ctx:
    """Per-(unit, shard) recorder handed to every body."""

    MAX_SAMPLES = 3
    MAX_DIGESTS = 200000

    def __init__(self, prop, unit, tier, known_keys=()):
        self.prop = prop
        self.unit = unit
        self.tier = tier
        self.known_keys = set(known_keys)
        self.evaluations = 0
        self.classes = Counter()
        self.digests = set()
        self.samples = []
        self.excluded = Counter()
        self.disabled = set()
        self.failures = {}
        self.last_failure_kind = None

    # --- classification -------------------------------------------------
    def event(self, label, n=1):
        self.classes[str(label)] += n

    def nontrivial(self, canonical, sample=None):
        """Register a non-trivial case by its canonical rendering."""
        if not isinstance(canonical, (bytes, bytearray)):
            canonical = repr(canonical).encode("utf-8", "backslashreplace")
        d = hashlib.sha1(canonical).hexdigest()[:16]
        new = d not in self.digests
        if len(self.digests) < self.MAX_DIGESTS:
            self.digests.add(d)
        self.classes["nontrivial"] += 1
        if new and len(self.samples) < self.MAX_SAMPLES:
            s = sample if sample is not None else canonical.decode("utf-8", "replace")
            if isinstance(s, str) and len(s) > 1200:
                s = s[:1200] + "..."
            self.samples.append(s)

    # --- verdicts -------------------------------------------------------
    def fail(self, kind, detail=""):
        raise PropertyViolation(kind, detail)

    def check(self, cond, kind, detail=""):
        if not cond:
            if callable(detail):
                detail = detail()
            raise PropertyViolation(kind, detail)

    @staticmethod
    def blame(e):
        """'file:line' of the code under test if the exception was raised there (or in a library it called) rather than
        in the harness: walking from the raise site outwards, a pero_ocr / user_scripts frame comes before any harness frame."""
        import traceback
        for fr in reversed(traceback.extract_tb(e.__traceback__)):
            fn = fr.filename.replace("\\", "/")
            if "/pero_ocr/" in fn or "/user_scripts/" in fn or "verif_parse_folder" in fn or "verif_merge_ocr_results" in fn:
                return "%s:%d" % (fn.split("/")[-1], fr.lineno)
            if "/vlib/" in fn or "/checks/" in fn:
                return None
        return None

    def must(self, kind, fn, *a, **kw):
        """Call code under test that the property says must succeed."""
        try:
            return fn(*a, **kw)
        except PropertyViolation:
            raise
        except (Exception, SystemExit) as e:  # noqa: BLE001 - converted, not swallowed
            import traceback
            tb = traceback.extract_tb(e.__traceback__)
            where = ""
            for fr in reversed(tb):
                if "pero_ocr" in fr.filename or "user_scripts" in fr.filename:
                    where = " at %s:%d" % (fr.filename.split("/")[-1], fr.lineno)
                    break
            raise PropertyViolation(kind, "%s: %s%s" % (type(e).__name__, str(e)[:300], where)) from e
