"""KNOWN_FINDINGS.txt parser.  The file is committed and never written at run time.

    known: property=C17 key=<k> replay=replays/known/<f> :: <what fails>
    fixed: property=C13 <commit> key=<k> replay=replays/regress/<f> :: <what failed>
"""
import os
import re

ROOT = os.path.dirname(os.path.dirname(os.path.abspath(__file__)))


def load_known(path=None):
    path = path or os.path.join(ROOT, "KNOWN_FINDINGS.txt")
    out = []
    if not os.path.exists(path):
        return out
    for line in open(path, encoding="utf-8"):
        line = line.strip()
        if not line or line.startswith("#"):
            continue
        m = re.match(r"^(known|fixed):\s+property=(\S+)\s+(.*?)\s*::\s*(.*)$", line)
        if not m:
            continue
        status, prop, mid, what = m.groups()
        e = dict(status=status, property=prop, what=what, key=None, replay=None, commit=None)
        for tok in mid.split():
            if tok.startswith("key="):
                e["key"] = tok[4:]
            elif tok.startswith("replay="):
                e["replay"] = tok[7:]
            else:
                e["commit"] = tok
        out.append(e)
    return out
