"""Runs one shard of one unit in its own process and writes a JSON result.

usage: python -m vlib.worker <module> <unit> <shard> <nshards> <tier> <seed> <out.json>
"""
import hashlib
import importlib
import json
import os
import sys
import time
import traceback

from vlib.core import Ctx, PropertyViolation, encode_payload


def unit_seed(seed, prop, unit, shard, rnd=0):
    h = hashlib.sha256(("%d|%s|%s|%d|%d" % (seed, prop, unit, shard, rnd)).encode()).digest()
    return int.from_bytes(h[:8], "big") >> 1


def known_keys_for(prop):
    from vlib.known import load_known
    return {e["key"] for e in load_known() if e["status"] == "known" and e["property"] == prop}


def make_runner(ctx, unit):
    journal = os.environ.get("VERIF_JOURNAL")

    def run_case(case):
        ctx.evaluations += 1
        if journal:
            # crash diagnosis (the previous run of this shard died from a signal): remember the case about to run
            with open(journal, "w") as jf:
                json.dump(dict(payload=encode_payload(case), render=unit.render(case)[:4000]), jf)
        try:
            unit.body(ctx, case)
        except PropertyViolation as v:
            for key, pred in unit.known.items():
                if key in ctx.known_keys and pred(v.kind, case, v.detail):
                    ctx.excluded[key] += 1
                    return
            if v.kind in ctx.disabled:
                return
            ctx.failures[v.kind] = dict(kind=v.kind, detail=str(v.detail)[:2000], payload=encode_payload(case),
                                        render=unit.render(case))
            ctx.last_failure_kind = v.kind
            raise
        except Exception as e:  # noqa: BLE001
            import hypothesis.errors
            if isinstance(e, hypothesis.errors.HypothesisException):
                raise
            where = ctx.blame(e)
            if where is None:
                raise           # raised by the harness itself: a harness error (exit 2), never a verdict
            # an exception raised inside the code under test on a generated in-domain input, at a call the body did not
            # guard explicitly: a violation (the property bodies only generate inputs the property covers)
            kind = "code_under_test_raises"
            if kind in ctx.disabled:
                return
            v = PropertyViolation(kind, "%s: %s at %s" % (type(e).__name__, str(e)[:300], where))
            ctx.failures[kind] = dict(kind=kind, detail=str(v.detail)[:2000], payload=encode_payload(case), render=unit.render(case))
            ctx.last_failure_kind = kind
            raise v from e
    return run_case


def run_given(ctx, unit, n_examples, seed, tier):
    import hypothesis
    from hypothesis import given, settings, HealthCheck, Phase

    run_case = make_runner(ctx, unit)
    phases = [Phase.explicit, Phase.generate, Phase.target]
    if tier != "quick" or unit.shrink_quick:
        phases.append(Phase.shrink)
    sett = settings(max_examples=n_examples, database=None, deadline=None, derandomize=False,
                    report_multiple_bugs=False, suppress_health_check=list(HealthCheck), phases=phases)

    strategy = unit.strategy()

    @hypothesis.seed(seed)
    @sett
    @given(strategy)
    def test(case):
        run_case(case)

    test()


def run_machine(ctx, unit, n_examples, seed, tier):
    import hypothesis
    from hypothesis import settings, HealthCheck, Phase
    from hypothesis.stateful import run_state_machine_as_test

    Machine = unit.machine(ctx)
    phases = [Phase.explicit, Phase.generate, Phase.target]
    if tier != "quick" or unit.shrink_quick:
        phases.append(Phase.shrink)
    kw = dict(max_examples=n_examples, database=None, deadline=None, derandomize=False,
              report_multiple_bugs=False, suppress_health_check=list(HealthCheck), phases=phases)
    if unit.steps:
        kw["stateful_step_count"] = unit.steps
    run_state_machine_as_test(hypothesis.seed(seed)(Machine), settings=settings(**kw))


def run_enum(ctx, unit, shard, nshards, tier):
    run_case = make_runner(ctx, unit)
    n = 0
    for i, case in enumerate(unit.cases(tier)):
        if i % nshards != shard:
            continue
        n += 1
        try:
            run_case(case)
        except PropertyViolation:
            # enumeration: first failure per kind is kept (no shrinking); keep going for other kinds
            ctx.disabled.add(ctx.last_failure_kind)
            ctx.enum_failed = True
    return n


def main(argv):
    modname, unitname, shard, nshards, tier, seed, out = argv
    shard, nshards, seed = int(shard), int(nshards), int(seed)
    t0 = time.time()
    res = dict(module=modname, unit=unitname, shard=shard, failures=[], error=None)
    try:
        mod = importlib.import_module("checks." + modname)
        unit = [u for u in mod.UNITS if u.name == unitname][0]
        ctx = Ctx(mod.PROPERTY, unitname, tier, known_keys_for(mod.PROPERTY))
        budget = unit.quick if tier == "quick" else unit.thorough
        n_examples = max(1, -(-budget // nshards))
        reported = []
        if unit.driver == "enum":
            ctx.enum_failed = False
            run_enum(ctx, unit, shard, nshards, tier)
            reported = list(ctx.failures.values())
        else:
            for rnd in range(3):
                s = unit_seed(seed, mod.PROPERTY, unitname, shard, rnd)
                try:
                    if unit.driver == "given":
                        run_given(ctx, unit, n_examples, s, tier)
                    else:
                        run_machine(ctx, unit, n_examples, s, tier)
                    break
                except PropertyViolation as v:
                    f = ctx.failures.get(v.kind)
                    if f is None:
                        raise
                    reported.append(f)
                    ctx.disabled.add(v.kind)
                except Exception as e:
                    # Hypothesis found a failing case that did not fail again when replayed ("flaky"): all harness
                    # randomness is a function of the drawn values, so the code under test behaved differently on the
                    # same input - the failure that was observed on the real code is reported as it was recorded
                    if type(e).__name__ in ("FlakyFailure", "Flaky", "FlakyReplay") and ctx.last_failure_kind in ctx.failures:
                        f = dict(ctx.failures[ctx.last_failure_kind])
                        f["detail"] = "[not reproduced on immediate replay: behaviour differs between identical calls] " + f["detail"]
                        reported.append(f)
                        ctx.disabled.add(ctx.last_failure_kind)
                    else:
                        raise
        res.update(evaluations=ctx.evaluations, classes=dict(ctx.classes), digests=sorted(ctx.digests),
                   samples=ctx.samples, excluded=dict(ctx.excluded), failures=reported)
    except BaseException as e:  # harness error: reported as such, never as a violation
        res["error"] = "%s: %s\n%s" % (type(e).__name__, e, traceback.format_exc()[-6000:])
    res["wall_s"] = round(time.time() - t0, 3)
    with open(out, "w") as f:
        json.dump(res, f)


if __name__ == "__main__":
    _cov = None
    if os.environ.get("VERIF_COVERAGE"):
        # reach measurement (tools/coverage_report.py): which lines of the code under test do the generated cases execute
        import coverage
        _repo = os.environ.get("VERIF_REPO", "/repo")
        _cov = coverage.Coverage(data_file=os.path.join(os.environ["VERIF_COVERAGE"], "cov.%s.%s.%d" % (sys.argv[1], sys.argv[2], os.getpid())),
                                 source=[os.path.join(_repo, "pero_ocr"), os.path.join(_repo, "user_scripts")], branch=True)
        _cov.start()
    try:
        main(sys.argv[1:])
    finally:
        if _cov is not None:
            _cov.stop()
            _cov.save()
