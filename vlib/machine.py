"""Base class for replayable rule-based state machines.

Rules are thin: each calls ``self.do(("opname", arg, ...))``.  ``do`` appends the
plain-data operation to ``self.log``, dispatches to ``op_<opname>`` and then runs
``self.check()``.  A PropertyViolation is recorded in the ctx together with the
history so far, which is the replay payload: ``replay(cls, ctx, history)`` re-executes
it on a fresh machine without Hypothesis.
"""
import json
import os

from hypothesis.stateful import RuleBasedStateMachine

from vlib.core import PropertyViolation, encode_payload, default_render


class LoggedMachine(RuleBasedStateMachine):
    ctx = None          # set by the unit factory
    unit_known = {}     # key -> predicate(kind, history, detail)

    def __init__(self):
        super().__init__()
        self.log = []
        self.ctx.evaluations += 1
        self.setup()

    def setup(self):
        pass

    def check(self):
        pass

    def render(self):
        return default_render(self.log)

    dead = False

    def do(self, op):
        if self.dead:       # a suppressed (known / already reported) violation ended this history
            return
        self.log.append(op)
        ctx = self.ctx
        journal = os.environ.get("VERIF_JOURNAL")
        if journal:
            with open(journal, "w") as jf:
                json.dump(dict(payload=encode_payload(list(self.log)), render=self.render()[:4000]), jf)
        ctx.event("op:" + str(op[0]))
        try:
            try:
                getattr(self, "op_" + op[0])(*op[1:])
                self.check()
            except PropertyViolation:
                raise
            except Exception as e:  # noqa: BLE001
                import hypothesis.errors
                where = None if isinstance(e, hypothesis.errors.HypothesisException) else ctx.blame(e)
                if where is None:
                    raise       # harness error
                raise PropertyViolation("code_under_test_raises", "%s: %s at %s" % (type(e).__name__, str(e)[:300], where)) from e
        except PropertyViolation as v:
            for key, pred in self.unit_known.items():
                if key in ctx.known_keys and pred(v.kind, self.log, v.detail):
                    ctx.excluded[key] += 1
                    self.dead = True
                    return
            if v.kind in ctx.disabled:
                self.dead = True
                return
            ctx.failures[v.kind] = dict(kind=v.kind, detail=str(v.detail)[:2000],
                                        payload=encode_payload(list(self.log)), render=self.render())
            ctx.last_failure_kind = v.kind
            raise

    @classmethod
    def replay(cls, ctx, history):
        cls.ctx = ctx
        m = cls()
        try:
            for op in history:
                m.do(tuple(op))
        finally:
            m.teardown()
