"""Synthetic recognised pages: geometry + transcriptions + engine-style sparse logits.

All structure is drawn by Hypothesis; bulk numeric noise comes from numpy.random.RandomState(drawn seed).
"""
import numpy as np
from hypothesis import strategies as st
from scipy import sparse


def softmax_rows(x):
    x = x - x.max(axis=1, keepdims=True)
    e = np.exp(x)
    return e / e.sum(axis=1, keepdims=True)


def sparsify(dense):
    """what BaseEngineLineOCR.process_lines does to the logits of a line."""
    dense = np.asarray(dense, dtype=np.float32).copy()
    p = softmax_rows(dense.astype(np.float64))
    dense[p < 1e-4] = 0
    return sparse.csc_matrix(dense)


def frames_for_labels(labels, blank, rs, run=(1, 3), gap=(0, 2), lead=(0, 2)):
    """a frame-level class path that collapses to labels."""
    path = [blank] * rs.randint(lead[0], lead[1] + 1)
    prev = None
    for c in labels:
        g = rs.randint(gap[0], gap[1] + 1)
        if prev == c and g == 0:
            g = 1
        path += [blank] * g
        path += [c] * rs.randint(run[0], run[1] + 1)
        prev = c
    path += [blank] * rs.randint(lead[0], lead[1] + 1)
    return path


def logits_for_path(path, C, rs, peak=(6.0, 14.0), noise=3.0, confuse=0.0, overshoot=0.0):
    """raw logits (float32) whose arg max follows path; `confuse` = probability of a strong competitor."""
    T = len(path)
    x = rs.uniform(-noise, noise, size=(T, C)).astype(np.float32) - 6.0
    for t, c in enumerate(path):
        x[t, c] = rs.uniform(peak[0], peak[1])
        if confuse and rs.uniform() < confuse:
            other = rs.randint(0, C)
            if other != c:
                x[t, other] = x[t, c] - rs.uniform(0.05, 1.5)
                if overshoot and rs.uniform() < overshoot:
                    x[t, other] = x[t, c] + rs.uniform(0.05, 1.0)
    # never exactly 0.0 (0 means "pruned" in the sparse representation)
    x[x == 0] = 1e-3
    return x


@st.composite
def line_geometry(draw, x0=None, y=None, integer=True, max_len=600):
    """left-to-right baseline of 2-4 well separated points, heights, simple polygon around it."""
    n = draw(st.integers(2, 4))
    x = draw(st.integers(5, 200)) if x0 is None else x0
    yy = draw(st.integers(40, 900)) if y is None else y
    pts = []
    for i in range(n):
        pts.append([float(x), float(yy)])
        x += draw(st.integers(30, max(31, max_len // n)))
        yy += draw(st.integers(-4, 4))
    asc = float(draw(st.integers(8, 40)))
    desc = float(draw(st.integers(3, 15)))
    base = np.asarray(pts, dtype=np.float64)
    if not integer:
        base = base + draw(st.floats(0.0, 0.9, allow_nan=False, width=32))
    upper = base.copy()
    upper[:, 1] -= asc
    lower = base.copy()[::-1]
    lower[:, 1] += desc
    poly = np.concatenate([upper, lower], axis=0)
    return base, [asc, desc], poly


def region_polygon_around(polys, margin=5, integer=True):
    allp = np.concatenate(polys, axis=0)
    x0, y0 = allp.min(axis=0) - margin
    x1, y1 = allp.max(axis=0) + margin
    if integer:
        x0, y0, x1, y1 = np.floor(x0), np.floor(y0), np.ceil(x1), np.ceil(y1)
    return np.asarray([[x0, y0], [x1, y0], [x1, y1], [x0, y1]], dtype=np.float64)


def build_line(lid, geom, text, chars, seed, pad_frames=(0, 2), confuse=0.0, peak=(6.0, 14.0), index=None):
    """TextLine with engine-style sparse logits consistent with `text` (characters outside the table -> class 0)."""
    from pero_ocr.core.layout import TextLine
    rs = np.random.RandomState(seed)
    base, heights, poly = geom
    C = len(chars)
    blank = C - 1
    cmap = {c: i for i, c in enumerate(chars[:-1])}
    labels = [cmap.get(ch, 0) for ch in (text or "")]
    path = frames_for_labels(labels, blank, rs)
    a = rs.randint(pad_frames[0], pad_frames[1] + 1)
    b = rs.randint(pad_frames[0], pad_frames[1] + 1)
    full = [blank] * a + path + [blank] * b
    dense = logits_for_path(full, C, rs, confuse=confuse, peak=peak)
    line = TextLine(id=lid, baseline=base.copy(), polygon=poly.copy(), heights=list(heights), transcription=text,
                    logits=sparsify(dense), characters=list(chars), logit_coords=[a, a + len(path)], index=index)
    return line
