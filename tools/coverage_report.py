#!/venv/bin/python
"""tools/coverage_report.py <tier> [ID ...]  - reach measurement, not a verdict.
Runs the checks of the given properties (default: all) with VERIF_COVERAGE set, so that every worker records which lines
and branches of pero_ocr/ and user_scripts/ the generated cases execute, and prints per property the lines inside the
property's anchored `where` ranges that were never executed. Data is kept in a scratch directory that is removed afterwards."""
import json, os, re, shutil, subprocess, sys, tempfile
import coverage

here = os.path.dirname(os.path.dirname(os.path.abspath(__file__)))
repo = os.environ.get("VERIF_REPO", "/repo")
tier = sys.argv[1]
ids = sys.argv[2:] or ["C%02d" % i for i in range(1, 21)]
props = {json.loads(l)["id"]: json.loads(l) for l in open(os.path.join(here, "properties.jsonl"))}


def anchored_ranges(p):
    out = {}
    def walk(o):
        if isinstance(o, dict):
            w = o.get("where")
            if isinstance(w, str):
                for part in w.split(";"):
                    m = re.match(r"\s*([\w/\.]+\.py):([\d,\-\s]+)", part)
                    if m:
                        for r in m.group(2).split(","):
                            a, _, b = r.strip().partition("-")
                            out.setdefault(m.group(1), []).append((int(a), int(b or a)))
            for v in o.values():
                walk(v)
        elif isinstance(o, list):
            for v in o:
                walk(v)
    walk(p["anchors"])
    return out


def fmt(lines):
    out, run = [], []
    for n in sorted(lines):
        if run and n == run[-1] + 1:
            run.append(n)
        else:
            if run:
                out.append("%d-%d" % (run[0], run[-1]) if len(run) > 1 else str(run[0]))
            run = [n]
    if run:
        out.append("%d-%d" % (run[0], run[-1]) if len(run) > 1 else str(run[0]))
    return ",".join(out)


for pid in ids:
    d = tempfile.mkdtemp(prefix="verifcov-")
    try:
        env = dict(os.environ, VERIF_COVERAGE=d, COVERAGE_CORE="sysmon")
        rc = subprocess.run([os.path.join(here, "check"), pid, "--tier", tier, "--no-evidence"], env=env, capture_output=True, text=True).returncode
        files = [os.path.join(d, f) for f in os.listdir(d) if f.startswith("cov.")]
        cov = coverage.Coverage(data_file=os.path.join(d, "combined"))
        cov.combine(files, keep=False)
        data = cov.get_data()
        executed = {os.path.relpath(f, repo): set(data.lines(f) or []) for f in data.measured_files()}
        print("== %s (check exit %d, %d worker data files)" % (pid, rc, len(files)))
        # NB: line numbers in the anchors refer to the pinned snapshot; repairs moved some lines by a few positions, so the
        # report uses the *files* the property names and lists every statement never executed in them
        for f in props[pid]["anchors"]["files"]:
            path = os.path.join(repo, f)
            try:
                _, stmts, _, missing, _ = cov.analysis2(path)
            except Exception as e:
                print("   %s: not measured (%s)" % (f, type(e).__name__))
                continue
            ex = executed.get(f, set())
            print("   %s: %d/%d statements executed; never executed: %s" % (f, len(stmts) - len(missing), len(stmts), fmt(missing)))
    finally:
        shutil.rmtree(d, ignore_errors=True)
