mk () 
{ 
    /venv/bin/python - "$@" <<'EOF'
import sys, subprocess, os, shutil, tempfile
name, f, old, new = sys.argv[1:5]
src = open('/repo/'+f).read()
assert src.count(old) == 1, (name, src.count(old))
d = tempfile.mkdtemp()
os.makedirs(os.path.join(d,'a',os.path.dirname(f))); os.makedirs(os.path.join(d,'b',os.path.dirname(f)))
open(os.path.join(d,'a',f),'w').write(src); open(os.path.join(d,'b',f),'w').write(src.replace(old,new))
p = subprocess.run(['diff','-u',os.path.join('a',f),os.path.join('b',f)],cwd=d,capture_output=True,text=True)
open('/verif/mutants/'+name+'.patch','w').write(p.stdout)
shutil.rmtree(d)
EOF

}
mk "$@"
