#!/venv/bin/python
"""Regenerates MANIFEST.json from the check modules present (checks/cNN_*.py) and tools/manifest_meta.json."""
import glob
import json
import os
import subprocess

ROOT = os.path.dirname(os.path.dirname(os.path.abspath(__file__)))
meta = json.load(open(os.path.join(ROOT, "tools", "manifest_meta.json")))
props = [json.loads(l) for l in open(os.path.join(ROOT, "properties.jsonl"))]
have = {os.path.basename(p)[:3].upper() for p in glob.glob(os.path.join(ROOT, "checks", "c[0-9][0-9]_*.py"))}
fix_commits = []
checks, na = [], []
for p in props:
    pid = p["id"]
    m = meta["checks"].get(pid)
    if pid in have and m and not m.get("disabled"):
        checks.append(dict(
            property_id=pid,
            quick_cmd="./check %s --tier quick" % pid,
            thorough_cmd="./check %s --tier thorough" % pid,
            evidence_file="evidence/%s.json" % pid,
            replay_cmd_template="./check %s --replay {path}" % pid,
            engine="hypothesis-runner",
            level_claimed=dict(category=m.get("category", "exploration"), text=m["text"], design_ref="DESIGN.md section " + pid),
            level_note=m["note"],
            technique=m["technique"]))
    else:
        na.append(dict(property_id=pid, reason=(m or {}).get("na_reason", "check not built yet in this session; not claimed")))
man = dict(
    version=1,
    setup_cmd="/venv/bin/python -c 'import hypothesis' 2>/dev/null || /venv/bin/pip install --no-index --find-links /opt/veriftools/wheels hypothesis",
    hooks=dict(guard="PERO_OCR_VERIF", enable="no source hooks: checks import /repo's working tree directly (VERIF_REPO=/repo first on PYTHONPATH)",
               baseline_off_cmd="cd /repo && /venv/bin/python -m pytest -ra -q -p no:cacheprovider --timeout=900 --continue-on-collection-errors",
               source_commits=[], add_only=True),
    engines=[dict(name="hypothesis-runner", path="vlib/runner.py", serves_properties=[c["property_id"] for c in checks],
                  kind_free_text="Hypothesis 6.168 @given / RuleBasedStateMachine units and sharded exhaustive enumerations, one worker process per shard; explicit oracles per property in checks/")],
    checks=checks,
    notes=meta["notes"],
    not_applicable=na)
json.dump(man, open(os.path.join(ROOT, "MANIFEST.json"), "w"), indent=1)
print("claimed:", [c["property_id"] for c in checks])
print("not claimed:", [n["property_id"] for n in na])
