#!/venv/bin/python
"""tools/assemble_seeded.py <out_dir> <eval_log> <suffix> [first_log ...]
Copies sub-agent deliveries (<out_dir>/<ID>/{a,b}.patch.diff, demo_{a,b}.py, meta.json) that were re-verified by
tools/seeded_eval.sh (lines of <eval_log>) into seeded/<ID>-<variant><suffix>/ with a meta.json, and prints a table."""
import json, os, re, shutil, sys
out_dir, eval_log, suffix = sys.argv[1:4]
first_logs = sys.argv[4:]
notes_path = os.path.join(os.path.dirname(os.path.abspath(__file__)), "seeded_notes.json")
notes = json.load(open(notes_path)) if os.path.exists(notes_path) else {}
first = {}
for f in first_logs:
    for l in open(f, errors="replace"):
        m = re.match(r"(C\d\d)/([ab]) .*check\[\w+\]=(\w[\w-]*)", l)
        if m:
            first.setdefault((m.group(1), m.group(2)), m.group(3))
final = {}
for l in open(eval_log, errors="replace"):
    m = re.match(r"(C\d\d)/([ab]) demo\(clean\)=(\d+) demo\(patched\)=(\d+) tests='([^']*)' check\[(\w+)\]=(\S+) :: (.*)", l)
    if m:
        final[(m.group(1), m.group(2))] = m.groups()[2:]
rows = []
root = os.path.dirname(os.path.dirname(os.path.abspath(__file__)))
for (pid, v), (dc, dp, tests, tier, verdict, viol) in sorted(final.items()):
    src = os.path.join(out_dir, pid)
    name = "%s-%s%s" % (pid, v, suffix)
    dst = os.path.join(root, "seeded", name)
    os.makedirs(dst, exist_ok=True)
    shutil.copy(os.path.join(src, v + ".patch.diff"), os.path.join(dst, "patch.diff"))
    shutil.copy(os.path.join(src, "demo_%s.py" % v), os.path.join(dst, "demo.py"))
    am = json.load(open(os.path.join(src, "meta.json"))).get(v, {})
    mk = re.search(r"unit=(\S+) kind=(\S+)", viol)
    valid = dc == "0" and dp != "0" and tests.startswith("4 failed, 217 passed")
    meta = dict(property=pid, variant=name, files=am.get("files"), what=am.get("what"), needs=am.get("needs"), kind=am.get("kind"),
                author="independent sub-agent (saw only the property text and a private worktree of /repo)", agent_ran=am.get("ran"),
                confirmed=dict(command="tools/seeded_eval.sh %s %s" % (pid, v), patch_applies=True, demo_exit_on_clean_copy=int(dc),
                               demo_exit_on_patched_copy=int(dp), repository_tests_on_patched_copy=tests, valid_seeded_change=valid,
                               check_tier=tier, check_on_patched_copy=verdict,
                               caught_by=dict(unit=mk.group(1), kind=mk.group(2)) if mk else None,
                               check_before_strengthening=first.get((pid, v), verdict)),
                strengthening=notes.get(name))
    json.dump(meta, open(os.path.join(dst, "meta.json"), "w"), indent=1, ensure_ascii=False)
    rows.append((name, (am.get("what") or "")[:120].replace("\n", " ").replace("|", "/"), first.get((pid, v), verdict), verdict,
                 (mk.group(1) + "/" + mk.group(2)) if mk else ""))
print("| change | what (abridged) | first run | now | caught by (unit/kind) |\n|---|---|---|---|---|")
for r in rows:
    print("| %s | %s | %s | %s | %s |" % r)
