"""python3-vt tools/validate.py  - validates MANIFEST.json and every evidence file against the given schemas."""
import glob, json, sys, jsonschema
ok = True
jsonschema.validate(json.load(open('MANIFEST.json')), json.load(open('/root/.vp/MANIFEST.schema.json')))
sch = json.load(open('/root/.vp/EVIDENCE.schema.json'))
for f in sorted(glob.glob('evidence/*.json')):
    try:
        jsonschema.validate(json.load(open(f)), sch)
    except Exception as e:
        ok = False
        print("INVALID", f, str(e)[:300])
print("valid" if ok else "INVALID")
sys.exit(0 if ok else 1)
