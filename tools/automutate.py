#!/venv/bin/python
"""tools/automutate.py <out_dir> [--per-prop N] [--jobs J] [--props C01,C02] [--seed S] [--tier quick]

Systematic single-point mutation of the functions each property is anchored in (properties.jsonl: anchors.mechanism /
anchors.state 'where' ranges, mapped to function names in the pinned snapshot and mutated in the current tree).
Operators: comparison swaps, +/- and //,/ swaps, small integer constants +-1, and/or, dropped 'not', min/max,
argmin/argmax, floor/ceil, True/False. For every sampled mutant:
  1. it must compile and the repository's test suite must still give '4 failed, 217 passed' (otherwise 'rejected-by-tests'),
  2. the property's check is run against the mutated scratch copy: exit 1 + VIOLATION -> killed, exit 0 -> survived.
Results go to <out_dir>/results.jsonl (one line per mutant, with a unified diff) and a summary is printed.
Scratch copies live under /tmp/automut.* and are removed at the end."""
import argparse
import ast
import copy
import difflib
import hashlib
import json
import multiprocessing
import os
import random
import re
import shutil
import subprocess
import sys
import tempfile

REPO = "/repo"
HERE = os.path.dirname(os.path.dirname(os.path.abspath(__file__)))
BASE = "9eb131a"

CMP = {ast.Lt: ast.LtE, ast.LtE: ast.Lt, ast.Gt: ast.GtE, ast.GtE: ast.Gt, ast.Eq: ast.NotEq, ast.NotEq: ast.Eq,
       ast.Is: ast.IsNot, ast.IsNot: ast.Is, ast.In: ast.NotIn, ast.NotIn: ast.In}
BIN = {ast.Add: ast.Sub, ast.Sub: ast.Add, ast.FloorDiv: ast.Div, ast.Div: ast.FloorDiv, ast.Mult: ast.Div}
NAMES = {"min": "max", "max": "min", "argmin": "argmax", "argmax": "argmin", "floor": "ceil", "ceil": "floor",
         "amin": "amax", "amax": "amin", "any": "all", "all": "any"}


def anchored_functions(prop):
    """{file: set(function names)} for the 'where' ranges of the property's anchors (resolved in the pinned snapshot)."""
    out = {}
    items = (prop["anchors"].get("mechanism") or []) + (prop["anchors"].get("state") or [])
    for it in items:
        w = it.get("where") or ""
        m = re.match(r"([^:]+):(.*)", w)
        if not m:
            continue
        path, ranges = m.group(1).strip(), m.group(2)
        if not path.endswith(".py"):
            continue
        try:
            src = subprocess.run(["git", "-C", REPO, "show", "%s:%s" % (BASE, path)], capture_output=True, text=True, check=True).stdout
            tree = ast.parse(src)
        except Exception:
            continue
        spans = []
        for r in ranges.split(","):
            r = r.strip()
            mm = re.match(r"(\d+)(?:-(\d+))?", r)
            if mm:
                a = int(mm.group(1))
                b = int(mm.group(2) or a)
                spans.append((a, b))
        for qual, node in qualified_functions(tree):
            for a, b in spans:
                if node.lineno <= b and node.end_lineno >= a:
                    out.setdefault(path, set()).add(qual)
    return out


class Mutator(ast.NodeTransformer):
    """applies the k-th applicable mutation (counting in visiting order); with k=None only counts."""

    def __init__(self, k=None):
        self.k = k
        self.n = 0
        self.desc = None

    def hit(self, desc):
        i = self.n
        self.n += 1
        if self.k is not None and i == self.k:
            self.desc = desc
            return True
        return False

    def visit_Call(self, node):
        f = node.func
        if isinstance(f, ast.Name) and f.id == "print":
            return node         # progress output is not behaviour
        if isinstance(f, ast.Attribute) and isinstance(f.value, ast.Name) and f.value.id in ("logger", "logging", "warnings", "traceback"):
            return node
        self.generic_visit(node)
        return node

    def visit_Compare(self, node):
        self.generic_visit(node)
        for i, op in enumerate(node.ops):
            if type(op) in CMP and self.hit("%s -> %s" % (type(op).__name__, CMP[type(op)].__name__)):
                node.ops[i] = CMP[type(op)]()
        return node

    def visit_BinOp(self, node):
        self.generic_visit(node)
        is_str = lambda x: isinstance(x, ast.Constant) and isinstance(x.value, str) or isinstance(x, ast.JoinedStr)
        if type(node.op) in BIN and not is_str(node.left) and not is_str(node.right):
            if self.hit("%s -> %s" % (type(node.op).__name__, BIN[type(node.op)].__name__)):
                node.op = BIN[type(node.op)]()
        return node

    def visit_BoolOp(self, node):
        self.generic_visit(node)
        if self.hit("%s -> %s" % (type(node.op).__name__, "Or" if isinstance(node.op, ast.And) else "And")):
            node.op = ast.Or() if isinstance(node.op, ast.And) else ast.And()
        return node

    def visit_UnaryOp(self, node):
        self.generic_visit(node)
        if isinstance(node.op, ast.Not) and self.hit("not dropped"):
            return node.operand
        if isinstance(node.op, ast.USub) and not isinstance(node.operand, ast.Constant) and self.hit("unary minus dropped"):
            return node.operand
        return node

    def visit_Constant(self, node):
        v = node.value
        if isinstance(v, bool):
            if self.hit("%r -> %r" % (v, not v)):
                return ast.copy_location(ast.Constant(not v), node)
        elif isinstance(v, int) and -3 <= v <= 16:
            if self.hit("%d -> %d" % (v, v + 1)):
                return ast.copy_location(ast.Constant(v + 1), node)
            if self.hit("%d -> %d" % (v, v - 1)):
                return ast.copy_location(ast.Constant(v - 1), node)
        elif isinstance(v, float) and v not in (0.0,):
            if self.hit("%r -> %r" % (v, v * 2)):
                return ast.copy_location(ast.Constant(v * 2), node)
        return node

    def visit_Name(self, node):
        if node.id in NAMES and isinstance(node.ctx, ast.Load) and self.hit("%s -> %s" % (node.id, NAMES[node.id])):
            return ast.copy_location(ast.Name(NAMES[node.id], ast.Load()), node)
        return node

    def visit_Attribute(self, node):
        self.generic_visit(node)
        if node.attr in NAMES and self.hit(".%s -> .%s" % (node.attr, NAMES[node.attr])):
            node.attr = NAMES[node.attr]
        return node


def qualified_functions(tree):
    """[(Class.function or function, node)] for every function of the module (nested functions belong to their outer one)."""
    out = []

    def walk(body, prefix):
        for node in body:
            if isinstance(node, (ast.FunctionDef, ast.AsyncFunctionDef)):
                out.append((prefix + node.name, node))
            elif isinstance(node, ast.ClassDef):
                walk(node.body, prefix + node.name + ".")
    walk(tree.body, "")
    return out


def function_nodes(tree, names):
    for qual, node in qualified_functions(tree):
        if qual in names:
            yield qual, node


def candidates(path, names):
    """[(function name, occurrence index, k)] for every applicable mutation in the current tree."""
    src = open(os.path.join(REPO, path)).read()
    tree = ast.parse(src)
    out = []
    seen = {}
    for qual, node in function_nodes(tree, names):
        occ = seen.get(qual, 0)
        seen[qual] = occ + 1
        m = Mutator(None)
        m.visit(copy.deepcopy(node))
        for k in range(m.n):
            out.append((qual, occ, k))
    return out


def make_mutant(path, fname, occ, k):
    """returns (new source, description, diff) or None"""
    src = open(os.path.join(REPO, path)).read()
    lines = src.split("\n")
    tree = ast.parse(src)
    seen = 0
    for qual, node in function_nodes(tree, {fname}):
        if seen != occ:
            seen += 1
            continue
        new = copy.deepcopy(node)
        m = Mutator(k)
        new = m.visit(new)
        if m.desc is None:
            return None
        ast.fix_missing_locations(new)
        start = min([d.lineno for d in node.decorator_list] + [node.lineno])
        end = node.end_lineno
        indent = " " * node.col_offset
        # unparse both the original and the mutated function so that the diff shows only the mutation
        old_txt = [indent + l for l in ast.unparse(node).split("\n")]
        new_txt = [indent + l for l in ast.unparse(new).split("\n")]
        if old_txt == new_txt:
            return None
        diff = "\n".join(difflib.unified_diff(old_txt, new_txt, path, path, lineterm="", n=1))
        out = lines[:start - 1] + new_txt + lines[end:]
        return "\n".join(out), "%s:%s: %s" % (path, fname, m.desc), diff
    return None


_SCRATCH = {}


def scratch_copy():
    pid = os.getpid()
    if pid not in _SCRATCH:
        d = tempfile.mkdtemp(prefix="automut.")
        subprocess.run(["rsync", "-a", "--exclude", ".git", "--exclude", "__pycache__", REPO + "/", d + "/"], check=True)
        _SCRATCH[pid] = d
    return _SCRATCH[pid]


def evaluate(task):
    prop, path, fname, occ, k, tier = task
    res = dict(property=prop, file=path, function=fname, index=k)
    mm = make_mutant(path, fname, occ, k)
    if mm is None:
        res["status"] = "no-change"
        return res
    new_src, desc, diff = mm
    res["mutation"] = desc
    res["diff"] = diff
    d = scratch_copy()
    target = os.path.join(d, path)
    orig = open(target).read()
    try:
        try:
            compile(new_src, path, "exec")
        except SyntaxError:
            res["status"] = "does-not-compile"
            return res
        open(target, "w").write(new_src)
        env = dict(os.environ, PYTHONPATH=d, PYTHONDONTWRITEBYTECODE="1", OMP_NUM_THREADS="1")
        t = subprocess.run(["/venv/bin/python", "-m", "pytest", "-q", "-p", "no:cacheprovider", "test"], cwd=d, env=env, capture_output=True, text=True, timeout=900)
        tail = (t.stdout.strip().split("\n") or [""])[-1]
        if not tail.startswith("4 failed, 217 passed"):
            res["status"] = "rejected-by-tests"
            res["tests"] = tail
            return res
        env2 = dict(os.environ, VERIF_REPO=d)
        c = subprocess.run([os.path.join(HERE, "check"), prop, "--tier", tier, "--no-evidence"], cwd=HERE, env=env2, capture_output=True, text=True, timeout=3600)
        if c.returncode == 1 and re.search(r"^VIOLATION property=%s" % prop, c.stdout, re.M):
            res["status"] = "killed"
            mv = re.search(r"violation unit=(\S+) kind=(\S+)", c.stdout)
            res["by"] = "%s/%s" % (mv.group(1), mv.group(2)) if mv else None
        elif c.returncode == 0:
            res["status"] = "survived"
        else:
            res["status"] = "harness-error"
            res["output"] = (c.stdout + c.stderr)[-600:]
        return res
    except subprocess.TimeoutExpired:
        res["status"] = "timeout"
        return res
    finally:
        open(target, "w").write(orig)


def main():
    ap = argparse.ArgumentParser()
    ap.add_argument("out")
    ap.add_argument("--per-prop", type=int, default=24)
    ap.add_argument("--jobs", type=int, default=5)
    ap.add_argument("--props", default="")
    ap.add_argument("--seed", type=int, default=1)
    ap.add_argument("--tier", default="quick")
    a = ap.parse_args()
    os.makedirs(a.out, exist_ok=True)
    props = [json.loads(l) for l in open(os.path.join(HERE, "properties.jsonl"))]
    want = set(a.props.split(",")) if a.props else None
    tasks = []
    for p in props:
        if want and p["id"] not in want:
            continue
        cands = []
        for path, names in sorted(anchored_functions(p).items()):
            if not os.path.exists(os.path.join(REPO, path)):
                continue
            for fname, occ, k in candidates(path, names):
                cands.append((p["id"], path, fname, occ, k, a.tier))
        rnd = random.Random(int(hashlib.sha256(("%d|%s" % (a.seed, p["id"])).encode()).hexdigest()[:8], 16))
        rnd.shuffle(cands)
        print("%s: %d candidate mutations in %d functions, sampling %d" % (p["id"], len(cands), len({(c[1], c[2]) for c in cands}), min(len(cands), a.per_prop)), flush=True)
        tasks += cands[:a.per_prop]
    random.Random(a.seed).shuffle(tasks)
    out = open(os.path.join(a.out, "results.jsonl"), "a")
    with multiprocessing.Pool(a.jobs) as pool:
        for r in pool.imap_unordered(evaluate, tasks):
            out.write(json.dumps(r, ensure_ascii=False) + "\n")
            out.flush()
            print("%s %-18s %s %s" % (r["property"], r["status"], r.get("mutation", ""), r.get("by", "")), flush=True)
    for d in os.listdir("/tmp"):
        if d.startswith("automut."):
            shutil.rmtree(os.path.join("/tmp", d), ignore_errors=True)


if __name__ == "__main__":
    main()
