#!/bin/bash
# tools/mutation_run.sh <ID> <patch> [tier]   - applies a patch to a scratch copy of /repo, runs the property's check
# against it (VERIF_REPO), expects exit 1 + VIOLATION.  Prints KILLED / SURVIVED / ERROR.  Scratch copy removed afterwards.
ID="$1"; PATCH="$(realpath "$2")"; TIER="${3:-quick}"
HERE="$(cd "$(dirname "${BASH_SOURCE[0]}")/.." && pwd)"
SCR="$(mktemp -d /tmp/mutrepo.XXXXXX)"
trap 'rm -rf "$SCR"' EXIT
rsync -a --exclude .git --exclude '__pycache__' /repo/ "$SCR/"
if ! (cd "$SCR" && patch -p1 -s < "$PATCH"); then echo "ERROR patch does not apply: $PATCH"; exit 3; fi
OUT="$(cd "$HERE" && VERIF_REPO="$SCR" ./check "$ID" --tier "$TIER" --no-evidence 2>&1)"; RC=$?
if [ $RC -eq 1 ] && echo "$OUT" | grep -q "^VIOLATION property=$ID"; then
  echo "KILLED $ID $(basename "$PATCH"): $(echo "$OUT" | grep -m1 '^  violation' | cut -c1-220)"
elif [ $RC -eq 0 ]; then echo "SURVIVED $ID $(basename "$PATCH")"
else echo "ERROR rc=$RC $ID $(basename "$PATCH"): $(echo "$OUT" | grep -m2 'HARNESS-ERROR' | cut -c1-300)"; fi
