#!/bin/bash
# tools/seeded_eval.sh <ID> <a|b> [tier]  - evaluates a sub-agent's seeded change kept in /tmp/seed/out/<ID> (or seeded/<ID>):
#   1. patch applies to a scratch copy of /repo   2. demo passes on clean copy, fails on patched copy
#   3. repository test suite unchanged on the patched copy (217 passed, 4 failed)   4. ./check <ID> against the patched copy
ID="$1"; V="$2"; TIER="${3:-quick}"
HERE="$(cd "$(dirname "${BASH_SOURCE[0]}")/.." && pwd)"
SRC="${SEED_OUT:-/tmp/seed/out}/$ID"; [ -d "$SRC" ] || SRC="$HERE/seeded/$ID"
PATCH="$SRC/$V.patch.diff"; DEMO="$SRC/demo_$V.py"
[ -f "$PATCH" ] || { echo "NO-PATCH $ID $V"; exit 3; }
CLEAN="$(mktemp -d /tmp/seedclean.XXXXXX)"; MUT="$(mktemp -d /tmp/seedmut.XXXXXX)"
trap 'rm -rf "$CLEAN" "$MUT"' EXIT
rsync -a --exclude .git --exclude '__pycache__' /repo/ "$CLEAN/"; rsync -a --exclude .git --exclude '__pycache__' /repo/ "$MUT/"
(cd "$MUT" && git init -q . 2>/dev/null; git apply "$PATCH" 2>/dev/null || patch -p1 -s < "$PATCH") || { echo "PATCH-FAILS $ID $V"; exit 3; }
(cd "$CLEAN" && PYTHONPATH="$CLEAN" timeout 600 /venv/bin/python "$DEMO" >/dev/null 2>&1); RC_CLEAN=$?
(cd "$MUT" && PYTHONPATH="$MUT" timeout 600 /venv/bin/python "$DEMO" >/dev/null 2>&1); RC_MUT=$?
TESTS="$(cd "$MUT" && PYTHONPATH="$MUT" /venv/bin/python -m pytest -q -p no:cacheprovider test 2>&1 | tail -1)"
OUT="$(cd "$HERE" && VERIF_REPO="$MUT" ./check "$ID" --tier "$TIER" --no-evidence 2>&1)"; RC=$?
VERDICT="MISSED"; [ $RC -eq 1 ] && echo "$OUT" | grep -q "^VIOLATION property=$ID" && VERDICT="CAUGHT"; [ $RC -eq 2 ] && VERDICT="HARNESS-ERROR"
echo "$ID/$V demo(clean)=$RC_CLEAN demo(patched)=$RC_MUT tests='$TESTS' check[$TIER]=$VERDICT :: $(echo "$OUT" | grep -m1 '^  violation' | cut -c1-200)"
